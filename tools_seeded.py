#!/venv/bin/python
"""Confirm and evaluate a seeded change delivered by a sub-agent.

  tools_seeded.py confirm <id> <property> [--no-suite]
      - copies /tmp/mut/<id>/_deliver/{patch.diff,demo.py,notes.md} to /verif/seeded/<id>/
      - in a fresh scratch worktree of /repo: demo passes WITHOUT the patch, fails WITH it,
        the pinned test-suite passes WITH it (4087 passed)
      - writes meta.json
  tools_seeded.py run <id> [props...] [--runs N] [--tier quick]
      - runs the given checks (default: the property in meta.json) against the patch applied to a
        scratch worktree (XSIM_REPO), records the outcome in meta.json ("checks")
"""
import json
import os
import shutil
import subprocess
import sys
import tempfile

HERE = os.path.dirname(os.path.abspath(__file__))
sys.path.insert(0, HERE)
PY = "/venv/bin/python"
STUB = os.path.join(HERE, "xsim", "numba_stub")


def _verif_commit():
    try:
        return subprocess.check_output(["git", "-C", HERE, "log", "--format=%h", "-1"]).decode().strip()
    except Exception:
        return None


def sh(cmd, cwd=None, env=None, timeout=3600):
    cp = subprocess.run(cmd, cwd=cwd, env=env, capture_output=True, text=True, timeout=timeout)
    return cp.returncode, cp.stdout + cp.stderr


def scratch(patch=None):
    tmp = tempfile.mkdtemp(prefix="xsim_seed_")
    wt = os.path.join(tmp, "repo")
    subprocess.check_call(["git", "-C", "/repo", "worktree", "add", "-q", "--detach", wt, "HEAD"])
    if patch:
        subprocess.check_call(["git", "-C", wt, "apply", "--whitespace=nowarn", patch])
    return tmp, wt


def drop(tmp, wt):
    subprocess.call(["git", "-C", "/repo", "worktree", "remove", "--force", wt])
    shutil.rmtree(tmp, ignore_errors=True)


def confirm(mid, prop, suite=True):
    src = f"/tmp/mut/{mid}/_deliver"
    dst = os.path.join(HERE, "seeded", mid)
    os.makedirs(dst, exist_ok=True)
    for f in ("patch.diff", "demo.py", "notes.md"):
        if os.path.exists(os.path.join(src, f)):
            shutil.copy(os.path.join(src, f), os.path.join(dst, f))
        elif not os.path.exists(os.path.join(dst, f)):
            raise SystemExit(f"{f} neither in {src} nor in {dst}")
    old_meta = {}
    if os.path.exists(os.path.join(dst, "meta.json")):
        old_meta = json.load(open(os.path.join(dst, "meta.json")))
    patch = os.path.join(dst, "patch.diff")
    env = dict(os.environ, PYTHONPATH=STUB, PYTHONDONTWRITEBYTECODE="1")
    meta = {"id": mid, "property": prop, "confirmed": {}}
    tmp, wt = scratch()
    try:
        os.makedirs(os.path.join(wt, "_deliver"))
        shutil.copy(os.path.join(dst, "demo.py"), os.path.join(wt, "_deliver", "demo.py"))
        rc0, out0 = sh([PY, "_deliver/demo.py"], cwd=wt, env=env)
        subprocess.check_call(["git", "-C", wt, "apply", "--whitespace=nowarn", patch])
        rc1, out1 = sh([PY, "_deliver/demo.py"], cwd=wt, env=env)
        meta["confirmed"]["demo_without_patch"] = {"rc": rc0, "tail": out0.strip().splitlines()[-1:] }
        meta["confirmed"]["demo_with_patch"] = {"rc": rc1, "tail": out1.strip().splitlines()[-3:]}
        if suite:
            rcs, outs = sh([PY, "-m", "pytest", "-q", "-p", "no:cacheprovider", "-n", "16", "xgcm"], cwd=wt,
                           env=dict(os.environ, PYTHONDONTWRITEBYTECODE="1"))
            line = [l for l in outs.splitlines() if " passed" in l][-1:] or [outs[-300:]]
            meta["confirmed"]["suite_with_patch"] = {"rc": rcs, "summary": line[0].strip("= ")}
            rcc, outc = sh([PY, "-c", "import xgcm, xgcm.grid, xgcm.padding, xgcm.grid_ufunc"], cwd=wt)
            meta["confirmed"]["imports"] = rcc == 0
    finally:
        drop(tmp, wt)
    ok = rc0 == 0 and rc1 != 0 and (not suite or (meta["confirmed"]["suite_with_patch"]["rc"] == 0
                                                  and "4087 passed" in meta["confirmed"]["suite_with_patch"]["summary"]))
    meta["confirmed"]["ok"] = bool(ok)
    notes = open(os.path.join(dst, "notes.md")).read()
    meta["needs_to_manifest"] = "see notes.md"
    meta["what_i_ran"] = ("demo.py in a fresh scratch worktree of /repo without and with patch.diff; "
                          "pytest -n 16 xgcm with patch.diff applied; then the registered quick check(s) with XSIM_REPO=<scratch>")
    for keep in ("checks", "first_run", "first_run_verdict", "ported"):
        if old_meta.get(keep):
            meta[keep] = old_meta[keep]
    json.dump(meta, open(os.path.join(dst, "meta.json"), "w"), indent=1)
    print(json.dumps(meta["confirmed"], indent=1))
    return ok


def run(mid, props, runs=0, tier="quick"):
    import check

    dst = os.path.join(HERE, "seeded", mid)
    meta = json.load(open(os.path.join(dst, "meta.json")))
    props = props or [meta["property"]]
    log = os.path.join(tempfile.gettempdir(), f"seeded_{mid}.log")
    res = check.run_against_patch(os.path.join(dst, "patch.diff"), props, runs=runs, tier=tier, keep_log=log)
    meta.setdefault("checks", {})
    for p, (rc, fps, details, tail) in res.items():
        meta["checks"][p] = {"exit": rc, "caught": rc == 1 and bool(fps), "fingerprints": fps[:6],
                             "first_detail": details[:2], "tier": tier, "runs": runs or "default"}
        # the verdict of the checks as they were when the change was first evaluated is kept
        meta.setdefault("first_run", {})
        if p not in meta["first_run"]:
            meta["first_run"][p] = {"caught": rc == 1 and bool(fps), "fingerprints": fps[:4],
                                    "verif_commit": _verif_commit()}
        print(mid, p, "CAUGHT" if rc == 1 and fps else ("HARNESS" if rc == 2 else "MISSED"), fps[:4])
        if rc == 2:
            print(tail)
    json.dump(meta, open(os.path.join(dst, "meta.json"), "w"), indent=1)


def benign(mid):
    """A behaviour-preserving refactor delivered by a sub-agent: every check must stay quiet."""
    import check

    src = f"/tmp/mut/{mid}/_deliver"
    dst = os.path.join(HERE, "seeded", "benign", mid)
    os.makedirs(dst, exist_ok=True)
    for f in ("patch.diff", "equiv.py", "notes.md"):
        if os.path.exists(os.path.join(src, f)):
            shutil.copy(os.path.join(src, f), os.path.join(dst, f))
    patch = os.path.join(dst, "patch.diff")
    props = ["C06", "C07", "C08", "C12", "C16", "C18"]
    res = check.run_against_patch(patch, props, keep_log=os.path.join(tempfile.gettempdir(), f"benign_{mid}.log"))
    meta = {"id": mid, "kind": "behaviour-preserving refactor (expected: every check exits 0)", "checks": {}}
    for p, (rc, fps, details, tail) in res.items():
        meta["checks"][p] = {"exit": rc, "fingerprints": fps[:5], "first_detail": details[:2]}
        print(mid, p, "QUIET" if rc == 0 else ("ALARM" if rc == 1 else "HARNESS"), fps[:3])
        if rc == 2:
            print(tail)
    meta["quiet"] = all(v["exit"] == 0 for v in meta["checks"].values())
    json.dump(meta, open(os.path.join(dst, "meta.json"), "w"), indent=1)


if __name__ == "__main__":
    cmd = sys.argv[1]
    if cmd == "benign":
        benign(sys.argv[2])
        sys.exit(0)
    if cmd == "confirm":
        ok = confirm(sys.argv[2], sys.argv[3], suite="--no-suite" not in sys.argv)
        sys.exit(0 if ok else 1)
    if cmd == "run":
        args = [a for a in sys.argv[3:] if not a.startswith("--")]
        runs = 0
        tier = "quick"
        for i, a in enumerate(sys.argv):
            if a == "--runs":
                runs = int(sys.argv[i + 1])
                args = [x for x in args if x != sys.argv[i + 1]]
            if a == "--tier":
                tier = sys.argv[i + 1]
                args = [x for x in args if x != sys.argv[i + 1]]
        run(sys.argv[2], args, runs, tier)
