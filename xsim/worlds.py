"""Builders: JSON grid specs -> xarray datasets, xgcm Grids, data arrays.

A *grid spec* is plain JSON:

  {"axes":  {"X": {"n": 5, "pos": {"center": "xc", "left": "xg"}}, ...},
   "extra": {"t": 3},                      # non-grid dimensions
   "face":  {"dim": "face", "n": 3},       # optional
   "vars":  {"dx": {"dims": ["xc"], "data": {...}}},   # dataset variables
   "grid":  {"boundary": ..., "fill_value": ..., "periodic": ...,
             "face_connections": {...}, "metrics": {...}}}

Axis order is the order of the "axes" mapping.  Dimension lengths follow the
xgcm convention: center/left/right n, inner n-1, outer n+1.
"""

import numpy as np
import xarray as xr

POS_LEN = {"center": 0, "left": 0, "right": 0, "inner": -1, "outer": 1}
POS_OFFSET = {"center": 0.5, "left": 0.0, "right": 1.0, "inner": 1.0, "outer": 0.0}


def dim_sizes(gspec):
    sizes = {}
    for ax, a in gspec["axes"].items():
        for pos, dim in a["pos"].items():
            sizes[dim] = a["n"] + POS_LEN[pos]
    for d, n in (gspec.get("extra") or {}).items():
        sizes[d] = n
    if gspec.get("face"):
        sizes[gspec["face"]["dim"]] = gspec["face"]["n"]
    return sizes


def dim_axis_pos(gspec):
    """dim name -> (axis, position)"""
    out = {}
    for ax, a in gspec["axes"].items():
        for pos, dim in a["pos"].items():
            out[dim] = (ax, pos)
    return out


def make_array(dspec, shape):
    """Array from a data spec.  All generators give integer-valued (or dyadic)
    float64 so that sums are exact and bitwise comparison is sound."""
    shape = tuple(int(s) for s in shape)
    size = int(np.prod(shape)) if shape else 1
    gen = dspec.get("gen", "randint")
    if gen == "randint":
        rng = np.random.default_rng(int(dspec.get("seed", 0)))
        lo, hi = int(dspec.get("lo", -50)), int(dspec.get("hi", 50))
        a = rng.integers(lo, hi + 1, size=size).astype("float64")
    elif gen == "arange":
        a = np.arange(size, dtype="float64") + float(dspec.get("start", 1))
    elif gen == "const":
        a = np.full(size, float(dspec["v"]))
    elif gen == "dyadic":  # positive powers of two / small dyadic numbers
        rng = np.random.default_rng(int(dspec.get("seed", 0)))
        a = np.ldexp(1.0, rng.integers(-2, 3, size=size)).astype("float64")
    elif gen == "list":
        a = np.asarray(dspec["v"], dtype="float64").reshape(-1)
        if a.size != size:
            a = np.resize(a, size)
    else:
        raise ValueError(f"unknown data generator {gen!r}")
    a = a.reshape(shape)
    if dspec.get("nan_seed") is not None and size > 1:
        rng = np.random.default_rng(int(dspec["nan_seed"]))
        mask = rng.random(size=shape) < float(dspec.get("nan_frac", 0.15))
        a = np.where(mask, np.nan, a)
    if dspec.get("dtype"):
        a = a.astype(dspec["dtype"])
    return a


def build_ds(gspec, coords=True):
    sizes = dim_sizes(gspec)
    dap = dim_axis_pos(gspec)
    cds = {}
    if coords:
        for d, n in sizes.items():
            if d in dap:
                off = POS_OFFSET[dap[d][1]]
                cds[d] = (d, np.arange(n, dtype="float64") + off)
            else:
                cds[d] = (d, np.arange(n))
    ds = xr.Dataset(coords=cds)
    for name, v in (gspec.get("vars") or {}).items():
        shape = [sizes[d] for d in v["dims"]]
        arr = make_array(v["data"], shape)
        if v.get("coord"):
            ds = ds.assign_coords({name: (tuple(v["dims"]), arr)})
        else:
            ds[name] = (tuple(v["dims"]), arr)
        if v.get("attrs"):
            ds[name].attrs.update(v["attrs"])
    for d, attrs in (gspec.get("dim_attrs") or {}).items():
        ds[d].attrs.update(attrs)
    if gspec.get("ds_attrs"):
        ds.attrs.update(gspec["ds_attrs"])
    return ds


def fc_from_json(fcj):
    """JSON face-connection table -> the nested dict xgcm wants."""
    if not fcj:
        return None
    out = {}
    for facedim, faces in fcj.items():
        out[facedim] = {}
        for fidx, axes in faces.items():
            out[facedim][int(fidx)] = {}
            for ax, (l, r) in axes.items():
                out[facedim][int(fidx)][ax] = (
                    tuple(l) if l is not None else None,
                    tuple(r) if r is not None else None,
                )
    return out


def metrics_from_json(mj):
    """{"X": ["dx"], "X,Y": ["area"]} -> {("X",): [...], ("X","Y"): [...]}"""
    if mj is None:
        return None
    out = {}
    for k, v in mj.items():
        out[tuple(k.split(","))] = list(v) if isinstance(v, list) else v
    return out


def grid_kwargs(gspec):
    g = dict(gspec.get("grid") or {})
    kw = {
        "coords": {ax: dict(a["pos"]) for ax, a in gspec["axes"].items()},
        "autoparse_metadata": False,
    }
    for k in ("boundary", "fill_value", "periodic", "default_shifts"):
        if k in g:
            v = g[k]
            kw[k] = dict(v) if isinstance(v, dict) else v
    if "periodic" not in kw:
        kw["periodic"] = False
    if g.get("face_connections"):
        kw["face_connections"] = fc_from_json(g["face_connections"])
    if g.get("metrics") is not None:
        kw["metrics"] = metrics_from_json(g["metrics"])
    return kw


def build_grid(ds, gspec):
    import xgcm

    return xgcm.Grid(ds, **grid_kwargs(gspec))


def build_da(ds_sizes, aspec, name=None):
    """DataArray from {"dims": [...], "data": {...}, "name": ...}; index
    coordinates are attached for every dimension."""
    shape = [ds_sizes[d] for d in aspec["dims"]]
    arr = make_array(aspec["data"], shape)
    da = xr.DataArray(arr, dims=list(aspec["dims"]), name=aspec.get("name", name))
    if aspec.get("attrs"):
        da.attrs.update(aspec["attrs"])
    return da


def attach_coords(da, ds):
    return da.assign_coords({d: ds[d] for d in da.dims if d in ds.coords})


# -------------------------------------------------------- random generators
def compositions(rng, n, kind=None):
    """A random composition of n (tuple of positive ints summing to n)."""
    if n <= 0:
        return (n,) if n == 0 else ()
    kind = kind or rng.choice(["one", "ones", "random", "random", "two", "random"])
    if kind == "one" or n == 1:
        return (n,)
    if kind == "ones":
        return (1,) * n
    if kind == "two":
        k = rng.randint(1, n - 1)
        return (k, n - k)
    cuts = sorted(c for c in range(1, n) if rng.random() < 0.4)
    parts, prev = [], 0
    for c in cuts + [n]:
        parts.append(c - prev)
        prev = c
    return tuple(parts)


def random_reciprocal_links(rng, nfaces, axes=("X", "Y"), p_link=0.7, allow_swap=True):
    """Random reciprocal face-link table (JSON form).  Every face edge
    (face, axis, side) is either unlinked or paired with exactly one other
    edge; ``reverse`` is forced by the sides (same side <=> reversed)."""
    edges = [(f, a, s) for f in range(nfaces) for a in axes for s in (0, 1)]
    rng.shuffle(edges)
    links = {}
    pool = [e for e in edges if rng.random() < p_link]
    while len(pool) >= 2:
        e1 = pool.pop()
        cands = [
            e
            for e in pool
            if (allow_swap or e[1] == e1[1])
        ]
        if not cands:
            continue
        e2 = rng.choice(cands)
        pool.remove(e2)
        rev = e1[2] == e2[2]
        links[e1] = (e2[0], e2[1], rev)
        links[e2] = (e1[0], e1[1], rev)
    table = {}
    for f in range(nfaces):
        table[str(f)] = {}
        for a in axes:
            l = links.get((f, a, 0))
            r = links.get((f, a, 1))
            table[str(f)][a] = [list(l) if l else None, list(r) if r else None]
    return table


def sparsify(rng, table, p=0.7):
    """Same links, written the way hand-made tables are: axis entries whose two
    links are both None are (mostly) left out, faces may list one axis only."""
    out = {}
    for f, axes in table.items():
        out[f] = {}
        for a, (l, r) in axes.items():
            if l is None and r is None and rng.random() < p:
                continue
            out[f][a] = [l, r]
    return out


def tiling_links(kx, ky, periodic_x=False, periodic_y=False):
    """Kx x Ky tiling of faces, plain same-axis links."""
    table = {}

    def fid(i, j):
        return j * kx + i

    for j in range(ky):
        for i in range(kx):
            ent = {}
            l = fid(i - 1, j) if i > 0 else (fid(kx - 1, j) if periodic_x else None)
            r = fid(i + 1, j) if i < kx - 1 else (fid(0, j) if periodic_x else None)
            ent["X"] = [
                [l, "X", False] if l is not None else None,
                [r, "X", False] if r is not None else None,
            ]
            d = fid(i, j - 1) if j > 0 else (fid(i, ky - 1) if periodic_y else None)
            u = fid(i, j + 1) if j < ky - 1 else (fid(i, 0) if periodic_y else None)
            ent["Y"] = [
                [d, "Y", False] if d is not None else None,
                [u, "Y", False] if u is not None else None,
            ]
            table[str(fid(i, j))] = ent
    return table


CUBED_SPHERE = {
    "0": {"X": [[3, "X", False], [1, "X", False]], "Y": [[4, "Y", False], [5, "Y", False]]},
    "1": {"X": [[0, "X", False], [2, "X", False]], "Y": [[4, "X", False], [5, "X", True]]},
    "2": {"X": [[1, "X", False], [3, "X", False]], "Y": [[4, "Y", True], [5, "Y", True]]},
    "3": {"X": [[2, "X", False], [0, "X", False]], "Y": [[4, "X", True], [5, "X", False]]},
    "4": {"X": [[3, "Y", True], [1, "Y", False]], "Y": [[2, "Y", True], [0, "Y", False]]},
    "5": {"X": [[3, "Y", False], [1, "Y", True]], "Y": [[0, "Y", False], [2, "Y", True]]},
}
