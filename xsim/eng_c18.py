"""Engine C / C18: argument-immutability and history-independence machine.

A *world* of long-lived objects (dataset, DataArrays, ndarrays, the mapping
objects a caller would re-use, Grids, GridUFunc objects) is built from a JSON
spec.  A *history* is a list of operations whose arguments reference world
objects by index, so objects are shared between steps.

Invariants after every step, whether it returned or raised:
  (1) snapshot(world) == pristine snapshot;
  (2) the step's outcome equals the outcome of the same op issued as the very
      first call on a fresh world.
Faults: ill-posed requests, a raising user function, and a BaseException
injected by a sys.settrace hook at the k-th line event inside xgcm's source.
"""

import copy
import json
import os
import sys
import warnings

import numpy as np
import xarray as xr

from . import core, worlds


class InjectedFault(BaseException):
    """Models Ctrl-C / MemoryError at an arbitrary point inside xgcm."""


# ------------------------------------------------------------ user functions
def _f_fwd_diff(a):
    return a[..., 1:] - a[..., :-1]


def _f_avg3(a):
    return a[..., :-2] + a[..., 1:-1] + a[..., 2:]


def _f_ident(a):
    return a * 2.0


def _f_raises(a):
    raise RuntimeError("user function failed")


def _f_add2(a, b):
    return a[..., 1:] + b[..., :-1]


FUNCS = {"fwd_diff": _f_fwd_diff, "avg3": _f_avg3, "ident": _f_ident,
         "raises": _f_raises, "add2": _f_add2}


# ------------------------------------------------------------------- world
class World:
    pass


def _mono(shape, axis, seed, decreasing=False):
    rng = np.random.default_rng(seed)
    inc = rng.integers(1, 4, size=shape).astype("float64")
    a = np.cumsum(inc, axis=axis)
    return -a if decreasing else a


def build_array(a, sizes):
    dims = list(a["dims"])
    shape = [a.get("sizes", {}).get(d, sizes.get(d)) for d in dims]
    d = a["data"]
    if d.get("gen") == "mono":
        arr = _mono(shape, dims.index(d["dim"]), int(d.get("seed", 0)), d.get("decreasing", False))
        if d.get("positive"):
            arr = np.abs(arr) + 1.0
    else:
        arr = worlds.make_array(d, shape)
    da = xr.DataArray(arr, dims=dims, name=a.get("name"))
    if a.get("attrs"):
        da.attrs.update(a["attrs"])
    return da


def resolve(w, x):
    if isinstance(x, dict):
        if len(x) == 1:
            (k, v), = x.items()
            if k == "$a":
                return w.arrays[v]
            if k == "$m":
                return w.maps[v]
            if k == "$n":
                return w.nps[v]
            if k == "$g":
                return w.grids[v]
            if k == "$u":
                return w.ufuncs[v]
            if k == "$ds":
                return w.ds
            if k == "$tuple":
                return tuple(resolve(w, e) for e in v)
            if k == "$items":
                return {resolve(w, kk): resolve(w, vv) for kk, vv in v}
            if k == "$nparray":
                return np.asarray(v, dtype="float64")
        return {k: resolve(w, v) for k, v in x.items()}
    if isinstance(x, list):
        return [resolve(w, e) for e in x]
    return x


def build_world(ws):
    import xgcm
    from xgcm.grid_ufunc import as_grid_ufunc

    w = World()
    gs = ws["gspec"]
    w.gspec = gs
    w.ds = worlds.build_ds(gs)
    if gs.get("ds_chunks"):
        w.ds = w.ds.chunk({d: tuple(c) for d, c in gs["ds_chunks"].items() if d in w.ds.dims})
    sizes = dict(w.ds.sizes)
    w.arrays = []
    for a in ws["arrays"]:
        da = build_array(a, sizes)
        if a.get("coords", True):
            da = da.assign_coords({d: w.ds[d] for d in da.dims if d in w.ds.coords})
        if a.get("extra_coords"):
            da = da.assign_coords(run=3, **{"row_id": (da.dims[-1], np.arange(da.shape[-1]) * 10.0)})
        if a.get("encoding"):
            da.encoding.update(a["encoding"])
        if a.get("self_coord"):
            da = da.assign_coords({da.dims[0]: (da.dims[0], np.asarray(da.values), {"axis": "Z"})})
        if a.get("chunks"):
            # lazy world: the caller's array is dask-backed; its blocks are views of one in-memory buffer, so a task
            # that writes into the block it is handed modifies what the caller gave
            da = da.chunk({d: tuple(c) for d, c in a["chunks"].items() if d in da.dims})
        w.arrays.append(da)
    w.nps = [np.asarray(n, dtype="float64") for n in ws.get("nps", [])]
    w.maps = []
    w.grids = []
    w.ufuncs = []
    for m in ws.get("maps", []):
        w.maps.append(resolve(w, m))
    with warnings.catch_warnings():
        warnings.simplefilter("ignore")
        for g in ws.get("grids", []):
            kw = resolve(w, copy.deepcopy(g))  # private literals, nothing shared
            w.grids.append(xgcm.Grid(w.ds, **kw))
    for u in ws.get("ufuncs", []):
        kw = resolve(w, copy.deepcopy(u["kw"]))
        w.ufuncs.append(as_grid_ufunc(**kw)(FUNCS[u["func"]]))
    return w


# --------------------------------------------------------------- snapshots
def snap_da(da):
    coords = {}
    for name, c in da.coords.items():
        coords[str(name)] = [list(c.dims), core.array_digest(np.asarray(c.values)), _attrs(c.attrs)]
    return {
        "t": "da",
        "v": core.array_digest(np.asarray(da.values)),
        "dims": list(da.dims),
        "name": da.name if da.name is None else str(da.name),
        "attrs": _attrs(da.attrs),
        "coords": coords,
        "chunks": repr(da.chunks),
        "encoding": sorted((str(k), repr(v)) for k, v in da.encoding.items()),
    }


def _attrs(a):
    return sorted((str(k), repr(v)) for k, v in a.items())


def snap_obj(o, ids=None):
    """Structural snapshot; ``ids`` collects object identities of containers'
    values so that replacing a value by an equal copy is also noticed."""
    import xgcm
    from xgcm.grid_ufunc import GridUFunc

    if isinstance(o, xr.DataArray):
        return snap_da(o)
    if isinstance(o, xr.Dataset):
        return {"t": "ds", "vars": {str(k): snap_da(o[k]) for k in o.variables},
                "attrs": _attrs(o.attrs), "dims": sorted((str(k), int(v)) for k, v in o.sizes.items())}
    if isinstance(o, np.ndarray):
        return {"t": "np", "v": core.array_digest(o), "w": bool(o.flags.writeable)}
    if isinstance(o, dict):
        if ids is not None:
            ids.append([id(v) for v in o.values()])
        return {"t": type(o).__name__, "items": [[snap_obj(k), snap_obj(v, ids)] for k, v in o.items()]}
    if isinstance(o, (list, tuple)):
        if ids is not None:
            ids.append([id(v) for v in o])
        return {"t": type(o).__name__, "items": [snap_obj(v, ids) for v in o]}
    if isinstance(o, xgcm.Grid):
        return snap_grid(o)
    if isinstance(o, GridUFunc):
        return {"t": "gridufunc", "sig": str(o.signature), "bw": snap_obj(o.boundary_width),
                "boundary": snap_obj(o.boundary), "fill": snap_obj(o.fill_value), "dask": o.dask,
                "map_overlap": o.map_overlap, "pad_before_func": o.pad_before_func,
                "func": getattr(o.ufunc, "__name__", "?")}
    if isinstance(o, (np.floating, np.integer, np.bool_)):
        return o.item()
    if o is None or isinstance(o, (str, int, float, bool)):
        return o
    return repr(o)


def snap_grid(g):
    axes = {}
    for name, ax in g.axes.items():
        axes[name] = {
            "coords": [[k, v] for k, v in ax.coords.items()],
            "boundary": ax.boundary,
            "fill_value": ax.fill_value,
            "default_shifts": sorted(ax.default_shifts.items()),
            "periodic": ax._periodic,
        }
    metrics = []
    for k in sorted(g._metrics, key=lambda s: sorted(s)):
        metrics.append([sorted(k), [[str(m.name), list(m.dims), core.array_digest(np.asarray(m.values)), _attrs(m.attrs),
                                     sorted(str(c) for c in m.coords)]
                                    for m in g._metrics[k]]])
    fc = snap_obj(g._face_connections) if g._face_connections else None
    return {"t": "grid", "axes_order": list(g.axes), "axes": axes, "metrics": metrics,
            "fc": fc, "facedim": g._facedim}


def snap_world(w):
    ids = []
    s = {
        # process-wide settings that change what later calls return
        "env": {"xarray_options": sorted((k, repr(v)) for k, v in xr.get_options().items()),
                "numpy_errstate": sorted(np.geterr().items())},
        "ds": snap_obj(w.ds),
        "arrays": [snap_da(a) for a in w.arrays],
        "nps": [snap_obj(n) for n in w.nps],
        "maps": [snap_obj(m, ids) for m in w.maps],
        "grids": [snap_grid(g) for g in w.grids],
        "ufuncs": [snap_obj(u) for u in w.ufuncs],
    }
    return s, ids


def diff_snap(a, b, path=""):
    """First difference between two snapshots, as a readable path."""
    if type(a) != type(b):
        return f"{path}: {a!r} -> {b!r}"
    if isinstance(a, dict):
        for k in list(a) + [k for k in b if k not in a]:
            if k not in a or k not in b:
                return f"{path}/{k}: {'added' if k not in a else 'removed'}"
            d = diff_snap(a[k], b[k], f"{path}/{k}")
            if d:
                return d
        return None
    if isinstance(a, list):
        if len(a) != len(b):
            return f"{path}: length {len(a)} -> {len(b)} ({a!r} -> {b!r})"[:400]
        for i, (x, y) in enumerate(zip(a, b)):
            d = diff_snap(x, y, f"{path}[{i}]")
            if d:
                return d
        return None
    if a != b:
        return f"{path}: {a!r} -> {b!r}"
    return None


def outcome_of(res):
    import xgcm

    if isinstance(res, xr.DataArray):
        s = snap_da(res)
        return s
    if isinstance(res, dict):
        return {"t": "dict", "items": [[str(k), outcome_of(v)] for k, v in res.items()]}
    if isinstance(res, (tuple, list)):
        return {"t": "seq", "items": [outcome_of(v) for v in res]}
    if isinstance(res, xgcm.Grid):
        return snap_grid(res)
    return snap_obj(res)


# ------------------------------------------------------------ op execution
XGCM_DIR = None


def _xgcm_dir():
    global XGCM_DIR
    if XGCM_DIR is None:
        import xgcm

        XGCM_DIR = os.path.dirname(os.path.abspath(xgcm.__file__)) + os.sep
    return XGCM_DIR


def cheap_state(w):
    """Cheap structural fingerprint of the caller-owned containers and settings
    (no array values): evaluated at every line event of a counting run to find
    the line events at which the world is *transiently* modified."""

    def ch(o):
        if isinstance(o, dict):
            return tuple((k if isinstance(k, (str, int)) else repr(k), ch(v)) for k, v in o.items())
        if isinstance(o, (list, tuple)):
            return tuple(ch(v) for v in o)
        if o is None or isinstance(o, (str, int, float, bool)):
            return o
        return id(o)

    arrays = tuple((a.name, a.dims, len(a.attrs), len(a.coords)) for a in w.arrays)
    grids = tuple(
        (tuple((n, ax.boundary, ax.fill_value, tuple(ax.coords.items()), tuple(sorted(ax.default_shifts.items())))
               for n, ax in g.axes.items()),
         tuple((tuple(sorted(k)), len(v)) for k, v in g._metrics.items()),
         ch(g._face_connections))
        for g in w.grids)
    return (tuple(ch(m) for m in w.maps), arrays, grids, len(w.ds.variables), len(w.ds.attrs))


class LineFault:
    """sys.settrace hook: counts line events inside xgcm/*.py; raises
    InjectedFault at the k-th (k=None: count only).  With ``probe`` (a
    callable returning the cheap world state) a counting run also records the
    line events at which that state differs from ``probe_ref``."""

    def __init__(self, k=None, probe=None):
        self.k = k
        self.n = 0
        self.fired_at = None
        self.dir = _xgcm_dir()
        self.probe = probe
        self.probe_ref = probe() if probe else None
        self.dirty = []

    def _global(self, frame, event, arg):
        fn = frame.f_code.co_filename
        if fn.startswith(self.dir) and os.sep + "test" + os.sep not in fn:
            return self._local
        return None

    def _local(self, frame, event, arg):
        if event == "line":
            self.n += 1
            if self.probe is not None and len(self.dirty) < 64 and self.probe() != self.probe_ref:
                self.dirty.append(self.n)
            if self.k is not None and self.n == self.k:
                self.fired_at = f"{os.path.basename(frame.f_code.co_filename)}:{frame.f_lineno}"
                raise InjectedFault(self.fired_at)
        return self._local

    def __enter__(self):
        self._old = sys.gettrace()
        sys.settrace(self._global)
        return self

    def __exit__(self, *exc):
        sys.settrace(self._old)
        return False


def call_op(w, op):
    import xgcm
    from xgcm import padding

    kind = op["op"]
    pos = resolve(w, op.get("pos", []))
    kw = resolve(w, op.get("kw", {}))
    if kind == "method":
        return getattr(w.grids[op["grid"]], op["name"])(*pos, **kw)
    if kind == "Grid":
        return xgcm.Grid(w.ds, *pos, **kw)
    if kind == "pad":
        return padding.pad(*pos, **kw)
    if kind == "ufunc_call":
        return w.ufuncs[op["u"]](w.grids[op["grid"]], *pos, **kw)
    if kind == "apply_ufunc":
        return w.grids[op["grid"]].apply_as_grid_ufunc(FUNCS[op["func"]], *pos, **kw)
    raise ValueError(f"unknown op kind {kind}")


WARN_ERROR_MODULES = r"(xgcm|xsim)(\.|$)"


def run_op(w, op, inject_k=None, count=False, info=None, warn=None):
    """Returns (outcome, lines, fired_at).  ``info`` (dict) receives the dirty
    line events of a counting run.  ``warn="error"``: warnings attributed to xgcm (or to its caller, for
    warnings issued with a stacklevel) are escalated to exceptions, as under ``python -W error`` or a
    pytest ``filterwarnings = error`` configuration - every warning site becomes a point where a call can raise."""
    tracer = None
    if inject_k is not None:
        tracer = LineFault(inject_k)
    elif count:
        tracer = LineFault(None, probe=lambda: cheap_state(w))
    try:
        with warnings.catch_warnings():
            warnings.simplefilter("ignore")
            if warn == "error":
                warnings.filterwarnings("error", module=WARN_ERROR_MODULES)
            if tracer:
                with tracer:
                    res = call_op(w, op)
            else:
                res = call_op(w, op)
            if isinstance(res, xr.DataArray) and res.chunks is not None:
                res = res.compute()
        out = {"ok": outcome_of(res)}
    except InjectedFault:
        out = {"injected": True}
    except Exception as e:  # noqa
        out = {"exc": type(e).__name__}
        if isinstance(e, Warning):
            out["escalated_warning"] = True
    if info is not None and tracer is not None:
        info["dirty"] = list(tracer.dirty)
    return out, (tracer.n if tracer else None), (tracer.fired_at if tracer else None)


# ---------------------------------------------------------------- executor
class Counters:
    def __init__(self):
        self.c = {"histories": 0, "steps": 0, "ops_ok": 0, "ops_raised": 0,
                  "fault_refused_fired": 0, "fault_user_raise_fired": 0,
                  "fault_injected_fired": 0, "fault_injected_missed": 0,
                  "shared_object_reuse": 0, "fresh_runs": 0, "snapshots": 0, "fault_injected_at_dirty_line": 0,
                  "canary_ops_compared": 0, "fault_warning_escalated_fired": 0}
        self.opkinds = {}

    def inc(self, k, n=1):
        self.c[k] = self.c.get(k, 0) + n


def execute(spec, cnt=None):
    """spec = {"world": wspec, "ops": [op...]}; op may carry "fault":
       {"kind": "inject", "frac": f} | {"kind": "refused"|"user_raise"}.
    Returns (violation or None, outcomes)."""
    import dask

    with dask.config.set(scheduler="synchronous"):
        v, outcomes = _execute(spec, cnt)
        if v is None and spec.get("cold") and not spec.get("warn") and not os.environ.get("XSIM_COLD_CHILD"):
            v = _cold_check(spec, cnt)
        return v, outcomes


def cold_child(req):
    """Runs in a fresh interpreter (check.py c18-cold).  mode "count": line events of the first call.
    mode "run": first call interrupted at line event k, then the remaining calls and the first call once more."""
    import dask

    spec = req["spec"]
    with dask.config.set(scheduler="synchronous"):
        w = build_world(spec["world"])
        ops = spec["ops"]
        if req["mode"] == "count":
            _, lines, _ = run_op(w, ops[0]["call"], count=True)
            return {"lines": lines}
        pristine, pids = snap_world(w)
        res = {"outs": [], "world": None}
        seq = [(ops[0]["call"], req["k"])] + [(o["call"], None) for o in ops[1:]] + [(ops[0]["call"], None)]
        for j, (call, k) in enumerate(seq):
            out, _, fired = run_op(w, call, inject_k=k)
            res["outs"].append(["injected" if "injected" in out else core.digest(out),
                                "ok" if "ok" in out else ("injected" if "injected" in out else "exc:" + out["exc"])])
            now, nids = snap_world(w)
            d = diff_snap(pristine, now)
            if d is not None and res["world"] is None:
                res["world"] = [j, d, fired]
        return res


def _cold_check(spec, cnt):
    import subprocess

    here = os.path.dirname(os.path.dirname(os.path.abspath(__file__)))
    env = dict(os.environ, XSIM_COLD_CHILD="1")

    def child(req):
        cp = subprocess.run([sys.executable, os.path.join(here, "check.py"), "c18-cold"], input=json.dumps(req), env=env,
                            capture_output=True, text=True, timeout=300, cwd=here)
        if cp.returncode != 0:
            raise RuntimeError("harness bug: cold child failed: " + cp.stderr[-800:])
        return json.loads(cp.stdout.strip().splitlines()[-1])

    ops = spec["ops"]
    lines = child({"mode": "count", "spec": spec})["lines"]
    if not lines:
        return None
    k = 1 + int(ops[0]["fault"]["frac"] * (lines - 1))
    res = child({"mode": "run", "spec": spec, "k": k})
    if cnt is not None:
        cnt.inc("cold_starts")
        if res["outs"][0][1] == "injected":
            cnt.inc("cold_fault_injected_fired")
    name = _opname(ops[0])
    if res["world"] is not None:
        j, d, fired = res["world"]
        return {"fingerprint": f"C18/world-changed/cold-start/{name}/{_where(d)}",
                "detail": f"fresh interpreter, first call ({name}) interrupted at line event {k} of {lines}: the caller's world "
                          f"is modified after step {j}: {d}"}
    # every later call must give what the same call gives as the first call on fresh objects (reference: this,
    # warm, process - the cold process must not have been left in another state by the interrupted call)
    later = [o["call"] for o in ops[1:]] + [ops[0]["call"]]
    for j, call in enumerate(later):
        ref, _, _ = run_op(build_world(spec["world"]), call)
        got = res["outs"][j + 1]
        if got[0] != core.digest(ref):
            refk = "ok" if "ok" in ref else "exc:" + ref.get("exc", "?")
            return {"fingerprint": f"C18/history-dependent/cold-start/{name}/{refk}->{got[1]}",
                    "detail": f"fresh interpreter, first xgcm call ({name}) interrupted at line event {k} of {lines}; call "
                              f"{j + 1} afterwards ({call.get('name') or call['op']}) gives {got[1]} where the same call issued "
                              f"first on fresh objects gives {refk}: the interrupted call left state behind outside the "
                              f"objects it was given"}
    return None


def _execute(spec, cnt=None):
    cnt = cnt or Counters()
    ws = spec["world"]
    if any(a.get("chunks") for a in ws["arrays"]):
        cnt.inc("lazy_worlds")
    w = build_world(ws)
    pristine, pristine_ids = snap_world(w)
    cnt.inc("snapshots")
    fresh_cache = {}
    outcomes = []
    warn = spec.get("warn")
    for si, op in enumerate(spec["ops"]):
        cnt.inc("steps")
        cnt.opkinds[_opname(op)] = cnt.opkinds.get(_opname(op), 0) + 1
        opkey = core.digest(op["call"])
        # fresh-run outcome (same op as the very first call on a fresh world)
        if opkey not in fresh_cache:
            fw = build_world(ws)
            want_count = (op.get("fault") or {}).get("kind") == "inject"
            finfo = {}
            fo, lines, _ = run_op(fw, op["call"], count=want_count, info=finfo, warn=warn)
            fresh_cache[opkey] = (fo, lines, finfo.get("dirty"))
            cnt.inc("fresh_runs")
        fresh_out, fresh_lines, dirty = fresh_cache[opkey]
        if (op.get("fault") or {}).get("kind") == "inject" and fresh_lines is None:
            fw = build_world(ws)
            finfo = {}
            fo, fresh_lines, _ = run_op(fw, op["call"], count=True, info=finfo, warn=warn)
            dirty = finfo.get("dirty")
            fresh_cache[opkey] = (fresh_out, fresh_lines, dirty)
        fault = op.get("fault") or {}
        k = None
        if fault.get("kind") == "inject" and fresh_lines:
            # faults are biased to land where in-flight state exists: if the counting run saw
            # the world transiently modified at some line events, 80% of the injections go there
            if dirty and fault["frac"] < 0.8:
                k = dirty[int(fault["frac"] / 0.8 * len(dirty))]
                cnt.inc("fault_injected_at_dirty_line")
            else:
                k = 1 + int(fault["frac"] * (fresh_lines - 1))
        out, _, fired_at = run_op(w, op["call"], inject_k=k, warn=warn)
        if out.get("escalated_warning"):
            cnt.inc("fault_warning_escalated_fired")
        tag = "ok" if "ok" in out else ("injected" if "injected" in out else "exc:" + out["exc"])
        outcomes.append(tag)
        if "ok" in out:
            cnt.inc("ops_ok")
        else:
            cnt.inc("ops_raised")
        if fault.get("kind") == "inject":
            cnt.inc("fault_injected_fired" if "injected" in out else "fault_injected_missed")
        elif fault.get("kind") == "refused" and "exc" in out:
            cnt.inc("fault_refused_fired")
        elif fault.get("kind") == "user_raise" and "exc" in out:
            cnt.inc("fault_user_raise_fired")
        # (1) world unchanged
        now, now_ids = snap_world(w)
        cnt.inc("snapshots")
        d = diff_snap(pristine, now)
        if d is None and pristine_ids != now_ids:
            d = "identity of a value inside a caller's mapping changed"
        if d is not None:
            how = "returned" if "ok" in out else ("was interrupted" if "injected" in out else "raised")
            where = _where(d)
            return ({"fingerprint": f"C18/world-changed/{_opname(op)}/{where}/{'interrupted' if 'injected' in out else ('raised' if 'exc' in out else 'returned')}",
                     "detail": f"step {si} ({_opname(op)}) {how}"
                               + (f" [fault injected at {fired_at}]" if fired_at else "")
                               + f" and left the caller's world modified: {d}"}, outcomes)
        # (2) history independence
        if "injected" not in out:
            if out != fresh_out:
                dd = diff_snap(fresh_out, out) or "?"
                return ({"fingerprint": f"C18/history-dependent/{_opname(op)}/{_outkind(fresh_out)}->{_outkind(out)}",
                         "detail": f"step {si} ({_opname(op)}) after {outcomes[:-1]} gives a different outcome than the same "
                                   f"call issued first on fresh objects: {dd}"[:900]}, outcomes)
    return None, outcomes


def _outkind(o):
    return "ok" if "ok" in o else "exc:" + o.get("exc", "?")


def _opname(op):
    c = op["call"]
    if c["op"] == "method":
        return c["name"]
    if c["op"] == "apply_ufunc":
        return "apply_as_grid_ufunc"
    if c["op"] == "ufunc_call":
        return "as_grid_ufunc"
    return c["op"]


def _where(d):
    head = d.split(":")[0]
    parts = [p for p in head.split("/") if p]
    if not parts:
        return "?"
    top = parts[0].split("[")[0]
    tail = parts[-1].split("[")[0]
    return f"{top}.{tail}" if tail != top else top


# --------------------------------------------------------------- generator
def gen_simple_world(rng):
    nx, ny, nz = rng.randint(3, 5), rng.randint(3, 4), rng.randint(3, 4)
    axes = {"X": {"n": nx, "pos": {"center": "xc", "left": "xg"}}}
    if rng.random() < 0.4:
        axes["X"]["pos"]["outer"] = "xo"
    has_y = rng.random() < 0.75
    has_z = rng.random() < 0.7
    if has_y:
        axes["Y"] = {"n": ny, "pos": {"center": "yc", "left": "yg"}}
    if has_z:
        axes["Z"] = {"n": nz, "pos": {"center": "zc", "outer": "zo"}}
    extra = {"t": 2} if rng.random() < 0.5 else {}
    vars_ = {"dx_c": {"dims": ["xc"], "data": {"gen": "dyadic", "seed": 1}},
             "dx_g": {"dims": ["xg"], "data": {"gen": "dyadic", "seed": 2}},
             # present in the dataset but not registered (used by refused registrations)
             "dx_c2": {"dims": ["xc"], "data": {"gen": "dyadic", "seed": 11}},
             "dx_g2": {"dims": ["xg"], "data": {"gen": "dyadic", "seed": 12}}}
    metrics = [[{"$tuple": ["X"]}, ["dx_c", "dx_g"]]]
    if has_y:
        vars_["dy_c"] = {"dims": ["yc"], "data": {"gen": "dyadic", "seed": 3}}
        vars_["dy_g"] = {"dims": ["yg"], "data": {"gen": "dyadic", "seed": 4}}
        vars_["area_cc"] = {"dims": ["yc", "xc"], "data": {"gen": "dyadic", "seed": 5}}
        metrics.append([{"$tuple": ["Y"]}, ["dy_c", "dy_g"]])
        if rng.random() < 0.5:  # otherwise the area has to be composed as dx * dy
            metrics.append([{"$tuple": ["X", "Y"]}, ["area_cc"]])
    if has_z:
        vars_["dz_c"] = {"dims": ["zc"], "data": {"gen": "dyadic", "seed": 6}}
        vars_["dz_o"] = {"dims": ["zo"], "data": {"gen": "dyadic", "seed": 7}}
        metrics.append([{"$tuple": ["Z"]}, ["dz_c", "dz_o"]])
    for vn, vv in vars_.items():
        vv["attrs"] = {"units": "m", "long_name": vn}
    # (attribute values as written by other tools: the COMODO shift as a float or as its decimal string)
    shift = rng.choice([-0.5, -0.5, "-0.5"])
    gspec = {"axes": axes, "extra": extra, "vars": vars_,
             "dim_attrs": {d: ({"axis": a, "standard_name": d} if p == "center" else
                               {"axis": a, "standard_name": d, "c_grid_axis_shift": shift})
                           for a, ax in axes.items() for p, d in ax["pos"].items()},
             "ds_attrs": {"title": "xsim world", "history": "built"}}
    axn = list(axes)

    def cdims(xpos="xc", ypos="yc", zpos="zc", t=True):
        d = []
        if extra and t:
            d.append("t")
        if has_z and zpos:
            d.append(zpos)
        if has_y and ypos:
            d.append(ypos)
        d.append(xpos)
        if rng.random() < 0.3:
            rng.shuffle(d)
        return d

    arrays = [
        {"dims": cdims(), "data": {"gen": "randint", "seed": rng.randrange(10**6)},
         "name": None if rng.random() < 0.3 else "c0", "attrs": {"units": "K"}},
        {"dims": cdims(xpos="xg"), "data": {"gen": "randint", "seed": rng.randrange(10**6)}, "name": "u"},
    ]
    if rng.random() < 0.4:
        arrays[0]["extra_coords"] = True
    if rng.random() < 0.4:
        arrays[0]["encoding"] = {"dtype": "float32", "_FillValue": -999.0}
    if has_y:
        arrays.append({"dims": cdims(ypos="yg"), "data": {"gen": "randint", "seed": rng.randrange(10**6)}, "name": "v"})
    else:
        arrays.append({"dims": cdims(), "data": {"gen": "randint", "seed": rng.randrange(10**6)}, "name": None})
    idx = {"c": 0, "u": 1, "v": 2}
    if has_z:
        d = cdims(t=False)
        arrays.append({"dims": d, "data": {"gen": "mono", "dim": "zc", "seed": rng.randrange(10**6),
                                            "decreasing": rng.random() < 0.3, "positive": True},
                       "name": None if rng.random() < 0.6 else "theta",
                       "attrs": {"units": "kg m-3", "long_name": "density"} if rng.random() < 0.7 else {}})
        idx["td_c"] = len(arrays) - 1
        # a second profile with the same name, dimensions and position but other values (another time step of the
        # same field): a call must not answer with what it worked out for the first one
        twin = copy.deepcopy(arrays[-1])
        twin["data"] = dict(twin["data"], seed=rng.randrange(10**6))
        arrays.append(twin)
        idx["td_c2"] = len(arrays) - 1
        d = cdims(zpos="zo", t=False)
        arrays.append({"dims": d, "data": {"gen": "mono", "dim": "zo", "seed": rng.randrange(10**6), "positive": True},
                       "name": None if rng.random() < 0.5 else "theta_o"})
        idx["td_o"] = len(arrays) - 1
        arrays.append({"dims": ["lev"], "sizes": {"lev": 4}, "data": {"gen": "list", "v": [2.5, 1.0, 4.0, 9.5]},
                       "name": rng.choice(["lev", "sigma"]), "coords": False, "self_coord": rng.random() < 0.7,
                       "attrs": {"positive": "down"}})
        idx["lev"] = len(arrays) - 1
    nps = [[1.5, 3.0, 2.0, 8.0], [0.0, 2.0, 5.0, 40.0]]
    bnd_words = ["fill", "extend", "periodic"]
    maps = []
    mi = {}

    def addmap(name, m):
        mi[name] = len(maps)
        maps.append(m)

    nonper = ["fill", "extend"]
    addmap("boundary_total", {a: (rng.choice(nonper) if a == "Z" else rng.choice(bnd_words)) for a in axn})
    addmap("boundary_partial", {rng.choice(axn): rng.choice(nonper)})
    addmap("fill_total", {a: float(rng.randint(-3, 3)) for a in axn})
    addmap("fill_partial", {rng.choice(axn): float(rng.randint(1, 5))})
    addmap("to_center_src", {a: "left" for a in axn if a != "Z"})
    addmap("to_partial", {"X": "left"})
    def mw_spell(a):
        return rng.choice([a, [a], {"$tuple": [a]}])

    addmap("mw", {"X": mw_spell("X")} if not has_y else {"X": mw_spell("X"), "Y": mw_spell("Y")})
    addmap("periodic_list", [a for a in axn if a != "Z" and rng.random() < 0.6])
    addmap("coords", {a: dict(axes[a]["pos"]) for a in axn})
    addmap("metrics", {"$items": metrics})
    addmap("boundary_none_values", {a: None for a in axn})
    # partial per-axis default shifts, re-used for several Grids
    addmap("default_shifts", {"X": {"center": "left"}} if rng.random() < 0.5 else {a: {"center": "left"} for a in axn if a != "Z"})
    # axis lists a caller keeps and passes again, and a `to` mapping naming the position the data already have
    addmap("axis_all", list(axn))
    addmap("axis_x", ["X"])
    addmap("to_same", {a: "center" for a in axn})
    gkw = {"coords": {a: dict(axes[a]["pos"]) for a in axn}, "autoparse_metadata": False,
           "periodic": False, "boundary": {a: (rng.choice(nonper) if a == "Z" else rng.choice(bnd_words)) for a in axn},
           "fill_value": {a: float(rng.randint(0, 2)) for a in axn}, "metrics": {"$items": metrics}}
    grids = [gkw]
    if rng.random() < 0.5:
        g2 = copy.deepcopy(gkw)
        g2["boundary"] = rng.choice(nonper)
        g2["fill_value"] = 1.0
        grids.append(g2)
    ufuncs = [
        {"func": "fwd_diff", "kw": {"signature": "(X:center)->(X:left)", "boundary_width": {"X": [1, 0]}}},
        {"func": "avg3", "kw": {"signature": "(X:center)->(X:center)", "boundary_width": {"X": [1, 1]},
                                "boundary": "extend"}},
        # options bound as mappings keyed by the signature's dummy axis name
        {"func": "avg3", "kw": {"signature": "(X:center)->(X:center)", "boundary_width": {"X": [1, 1]},
                                "boundary": {"X": rng.choice(nonper)}, "fill_value": {"X": 3.0}}},
    ]
    # boundary_width values must be tuples for xgcm
    for u in ufuncs:
        u["kw"]["boundary_width"] = {k: {"$tuple": v} for k, v in u["kw"]["boundary_width"].items()}
    ws = {"kind": "simple", "gspec": gspec, "arrays": arrays, "nps": nps, "maps": maps, "grids": grids,
          "ufuncs": ufuncs}
    info = {"axn": axn, "idx": idx, "mi": mi, "has_y": has_y, "has_z": has_z, "ngrids": len(grids),
            "xouter": "outer" in axes["X"]["pos"]}
    return ws, info


def gen_face_world(rng):
    N = rng.randint(2, 4)
    F = rng.randint(2, 3)
    axes = {"X": {"n": N, "pos": {"center": "xc", "left": "xg"}},
            "Y": {"n": N, "pos": {"center": "yc", "left": "yg"}}}
    extra = {"t": 2} if rng.random() < 0.3 else {}
    has_w = rng.random() < 0.4
    if has_w:
        axes["W"] = {"n": 3, "pos": {"center": "wc", "left": "wg"}}
    gspec = {"axes": axes, "extra": extra, "face": {"dim": "face", "n": F},
             "vars": {"dx_c": {"dims": ["xc"], "data": {"gen": "dyadic", "seed": 21}, "attrs": {"units": "m"}},
                      "dx_g": {"dims": ["xg"], "data": {"gen": "dyadic", "seed": 22}, "attrs": {"units": "m"}}}}
    pre = ["face"] + (["t"] if extra else []) + (["wc"] if has_w else [])
    arrays = [
        {"dims": pre + ["yc", "xc"], "data": {"gen": "randint", "seed": rng.randrange(10**6)},
         "name": None if rng.random() < 0.3 else "c"},
        {"dims": pre + ["yc", "xg"], "data": {"gen": "randint", "seed": rng.randrange(10**6)}, "name": "u"},
        {"dims": pre + ["yg", "xc"], "data": {"gen": "randint", "seed": rng.randrange(10**6)}, "name": "v"},
    ]
    if rng.random() < 0.5:
        links = worlds.random_reciprocal_links(rng, F)
    else:
        links = worlds.tiling_links(F, 1, periodic_x=rng.random() < 0.5)
    if rng.random() < 0.6:
        links = worlds.sparsify(rng, links)
    fcj = {"face": links}

    def fc_items(fcj):
        return {"$items": [[fd, {"$items": [[int(f), {"$items": [[ax, {"$tuple": [
            ({"$tuple": l} if l else None), ({"$tuple": r} if r else None)]}] for ax, (l, r) in axl.items()]}]
            for f, axl in faces.items()]}] for fd, faces in fcj.items()]}

    maps = []
    mi = {}

    def addmap(name, m):
        mi[name] = len(maps)
        maps.append(m)

    words = ["fill", "extend", "periodic"]
    addmap("vec_u", {"X": {"$a": 1}})
    addmap("vec_v", {"Y": {"$a": 2}})
    addmap("oc_u", {"Y": {"$a": 2}})
    addmap("oc_v", {"X": {"$a": 1}})
    addmap("vec2", {"X": {"$a": 1}, "Y": {"$a": 2}})
    addmap("boundary_total", {a: rng.choice(words) for a in axes})
    addmap("boundary_partial", {rng.choice(["X", "Y"]): rng.choice(["fill", "extend"])})
    addmap("fill_total", {a: float(rng.randint(-3, 3)) for a in axes})
    addmap("to_center_src", {a: "left" for a in axes})
    addmap("coords", {a: dict(axes[a]["pos"]) for a in axes})
    addmap("fc", fc_items(fcj))
    addmap("periodic_list", ["X"])
    addmap("axis_all", list(axes))
    addmap("axis_x", ["X"])
    addmap("to_same", {a: "center" for a in axes})
    gkw = {"coords": {a: dict(axes[a]["pos"]) for a in axes}, "autoparse_metadata": False,
           "periodic": False, "boundary": rng.choice([rng.choice(words), {a: rng.choice(words) for a in axes}]),
           "fill_value": float(rng.randint(0, 2)), "face_connections": fc_items(fcj),
           "metrics": {"$items": [[{"$tuple": ["X"]}, ["dx_c", "dx_g"]]]}}
    ws = {"kind": "faces", "gspec": gspec, "arrays": arrays, "nps": [], "maps": maps, "grids": [gkw], "ufuncs": [
        {"func": "fwd_diff", "kw": {"signature": "(X:center)->(X:left)", "boundary_width": {"X": {"$tuple": [1, 0]}}}}]}
    info = {"axn": ["X", "Y"] + (["W"] if has_w else []), "idx": {"c": 0, "u": 1, "v": 2}, "mi": mi, "has_y": True,
            "has_z": False, "ngrids": 1, "faces": True, "xouter": False}
    return ws, info


def _maybe_shared(rng, info, name, literal):
    """argument either as a shared world mapping or as a fresh literal"""
    if name in info["mi"] and rng.random() < 0.7:
        return {"$m": info["mi"][name]}
    return literal


def gen_op(rng, ws, info):
    """One valid op (call spec) for this world."""
    mi, idx = info["mi"], info["idx"]
    faces = info.get("faces", False)
    g = rng.randrange(info["ngrids"])
    axn = [a for a in info["axn"] if a != "Z"]
    kinds = ["stencil", "stencil", "stencil", "multi", "cumsum", "Grid", "Grid", "pad", "ufunc", "apply"]
    if faces:
        kinds += ["vector", "vector", "vector", "vector2d", "vector_multi", "padvec", "face_metric"]
    else:
        kinds += ["metricop", "metricop", "get_metric", "interp_like", "mw", "mw", "set_metrics_bad"]
        if info["has_z"]:
            kinds += ["transform", "transform", "transform"]
    kind = rng.choice(kinds)
    words = ["fill", "extend", "periodic"]

    def bkw(kw):
        r = rng.random()
        if r < 0.35:
            kw["boundary"] = _maybe_shared(rng, info, rng.choice(["boundary_total", "boundary_partial"]), rng.choice(words))
        elif r < 0.55:
            kw["boundary"] = rng.choice(words)
        r = rng.random()
        if r < 0.3:
            kw["fill_value"] = _maybe_shared(rng, info, rng.choice(["fill_total", "fill_partial"]), 2.0)
        elif r < 0.4:
            kw["fill_value"] = float(rng.randint(-2, 2))
        if rng.random() < 0.2:
            kw["keep_coords"] = True
        return kw

    if kind == "stencil":
        name = rng.choice(["diff", "interp", "min", "max"])
        src = rng.choice(["c", "u"])
        ax = "X" if src == "u" else rng.choice(axn)
        kw = bkw({})
        if info["has_z"] and not faces and rng.random() < 0.25:
            # along Z (center / outer): outer -> center needs no padding at all, so the kernel is handed the
            # caller's own buffer; center -> outer pads on both sides
            src = rng.choice(["td_o", "td_o", "td_c"])
            return {"op": "method", "grid": g, "name": name, "pos": [{"$a": idx[src]}, "Z"], "kw": kw}
        if src == "c" and rng.random() < 0.4:
            kw["to"] = _maybe_shared(rng, info, rng.choice(["to_center_src", "to_partial"]), "left")
        if ax == "X" and rng.random() < 0.2:
            ax = {"$m": mi["axis_x"]}  # the axis as a list object the caller keeps
        return {"op": "method", "grid": g, "name": name, "pos": [{"$a": idx[src]}, ax], "kw": kw}
    if kind == "multi":
        name = rng.choice(["diff", "interp", "min", "max"])
        ax = list(axn)
        rng.shuffle(ax)
        kw = bkw({})
        r = rng.random()
        if r < 0.45:
            kw["to"] = _maybe_shared(rng, info, "to_center_src", "left")
        elif r < 0.6:
            # (the position the data already have: refused, or answered trivially - either way nothing may change)
            kw["to"] = {"$m": mi["to_same"]}
        if rng.random() < 0.4:
            ax = {"$m": mi["axis_all"]}
        return {"op": "method", "grid": g, "name": name, "pos": [{"$a": idx["c"]}, ax], "kw": kw}
    if kind == "cumsum":
        ax = rng.choice(axn)
        kw = bkw({})
        kw.pop("keep_coords", None)
        if rng.random() < 0.5:
            kw["to"] = _maybe_shared(rng, info, "to_center_src", "left")
        return {"op": "method", "grid": g, "name": "cumsum", "pos": [{"$a": idx["c"]}, ax], "kw": kw}
    if kind == "Grid" and not faces and rng.random() < 0.2:
        # axes parsed from the dataset's own (COMODO) attributes
        kw = {"periodic": rng.choice([True, False])}
        if rng.random() < 0.5:
            kw["boundary"] = _maybe_shared(rng, info, "boundary_total", rng.choice(words))
        return {"op": "Grid", "pos": [], "kw": kw}
    if kind == "Grid":
        kw = {"coords": _maybe_shared(rng, info, "coords", copy.deepcopy(ws["grids"][0]["coords"])),
              "autoparse_metadata": False}
        kw["periodic"] = rng.choice([True, False, _maybe_shared(rng, info, "periodic_list", ["X"])])
        r = rng.random()
        if r < 0.55:
            kw["boundary"] = _maybe_shared(rng, info, rng.choice(["boundary_total", "boundary_none_values"]), rng.choice(words))
        elif r < 0.7:
            kw["boundary"] = rng.choice(words)
        if rng.random() < 0.4:
            kw["fill_value"] = _maybe_shared(rng, info, "fill_total", 1.0)
        if "default_shifts" in mi and rng.random() < 0.4:
            kw["default_shifts"] = {"$m": mi["default_shifts"]}
        if faces and rng.random() < 0.7:
            kw["face_connections"] = {"$m": mi["fc"]}
        if "metrics" in mi and rng.random() < 0.6:
            kw["metrics"] = {"$m": mi["metrics"]}
        return {"op": "Grid", "pos": [], "kw": kw}
    if kind == "pad":
        bw = {a: {"$tuple": [rng.randint(0, 2), rng.randint(0, 2)]} for a in axn if rng.random() < 0.7} or {"X": {"$tuple": [1, 1]}}
        kw = bkw({"boundary_width": bw})
        kw.pop("keep_coords", None)
        return {"op": "pad", "pos": [{"$a": idx["c"]}, {"$g": g}], "kw": kw}
    if kind == "ufunc":
        u = rng.randrange(len(ws["ufuncs"]))
        # the dummy axis of the signature is "X"; the real axis may be any axis with center+left
        uax = "X" if (ws["ufuncs"][u]["func"] == "fwd_diff" or rng.random() < 0.5) else rng.choice(axn)
        kw = {"axis": [{"$tuple": [uax]}]}
        if rng.random() < 0.4:
            kw["boundary"] = _maybe_shared(rng, info, "boundary_total", "extend")
        return {"op": "ufunc_call", "grid": g, "u": u, "pos": [{"$a": idx["c"]}], "kw": kw}
    if kind == "apply":
        f = rng.choice(["fwd_diff", "avg3", "ident"])
        sig, bw = {"fwd_diff": ("(X:center)->(X:left)", [1, 0]), "avg3": ("(X:center)->(X:center)", [1, 1]),
                   "ident": ("(X:center)->(X:center)", [0, 0])}[f]
        ax = rng.choice(axn)
        kw = {"axis": [{"$tuple": [ax]}], "signature": sig, "boundary_width": {"X": {"$tuple": bw}}}
        if rng.random() < 0.5:
            kw["boundary"] = _maybe_shared(rng, info, "boundary_total", "extend")
        if rng.random() < 0.3:
            kw["fill_value"] = _maybe_shared(rng, info, "fill_total", 1.0)
        return {"op": "apply_ufunc", "grid": g, "func": f, "pos": [{"$a": idx["c"]}], "kw": kw}
    if kind == "face_metric":
        # metric-aware calls on a face-connected grid: X has metrics, Y has none (refused)
        name = rng.choice(["integrate", "average", "get_metric", "derivative"])
        ax = rng.choice(["X", "X", "Y", ["X", "Y"]])
        if name == "derivative":
            ax = rng.choice(["X", "Y"])
        return {"op": "method", "grid": g, "name": name, "pos": [{"$a": idx["c"]}, ax], "kw": {}}
    if kind == "vector":
        name = rng.choice(["diff", "interp", "min", "max"])
        comp = rng.choice(["u", "v"])
        ax = "X" if comp == "u" else "Y"
        if rng.random() < 0.3:
            ax = "Y" if ax == "X" else "X"  # tangential direction
        kw = bkw({"other_component": {"$m": mi["oc_" + comp]}})
        return {"op": "method", "grid": g, "name": name, "pos": [{"$m": mi["vec_" + comp]}, ax], "kw": kw}
    if kind == "vector_multi":
        name = rng.choice(["diff", "interp"])
        comp = rng.choice(["u", "v"])
        ax = ["X", "Y"] if rng.random() < 0.5 else ["Y", "X"]
        kw = bkw({"other_component": {"$m": mi["oc_" + comp]}})
        return {"op": "method", "grid": g, "name": name, "pos": [{"$m": mi["vec_" + comp]}, ax], "kw": kw}
    if kind == "vector2d":
        name = rng.choice(["diff_2d_vector", "interp_2d_vector"])
        kw = bkw({})
        kw.pop("keep_coords", None)
        return {"op": "method", "grid": g, "name": name, "pos": [{"$m": mi["vec2"]}], "kw": kw}
    if kind == "padvec":
        comp = rng.choice(["u", "v"])
        bw = {a: {"$tuple": [rng.randint(0, 2), rng.randint(0, 2)]} for a in ("X", "Y")}
        kw = bkw({"boundary_width": bw, "other_component": {"$m": mi["oc_" + comp]}})
        kw.pop("keep_coords", None)
        return {"op": "pad", "pos": [{"$m": mi["vec_" + comp]}, {"$g": g}], "kw": kw}
    if kind == "metricop":
        name = rng.choice(["derivative", "integrate", "average", "cumint"])
        if name in ("integrate", "average"):
            ax = rng.choice([["X"], axn, "X", {"$m": mi["axis_all"]}, {"$m": mi["axis_x"]}])
            return {"op": "method", "grid": g, "name": name, "pos": [{"$a": idx["c"]}, ax], "kw": {}}
        ax = rng.choice(axn)
        kw = bkw({})
        kw.pop("keep_coords", None)
        return {"op": "method", "grid": g, "name": name, "pos": [{"$a": idx["c"]}, ax], "kw": kw}
    if kind == "mw":
        name = rng.choice(["diff", "interp", "cumsum"])
        kw = {"metric_weighted": _maybe_shared(rng, info, "mw", ["X"])}
        if rng.random() < 0.5:
            kw["boundary"] = _maybe_shared(rng, info, "boundary_total", "extend")
        return {"op": "method", "grid": g, "name": name, "pos": [{"$a": idx["c"]}, "X"], "kw": kw}
    if kind == "set_metrics_bad":
        # a registration that must be refused before anything is registered
        vals = ["dx_c2", "dx_g2"]
        rng.shuffle(vals)
        r = rng.random()
        if r < 0.5:
            vals.insert(rng.randrange(len(vals) + 1), "no_such_metric")
            key = rng.choice(["X", {"$tuple": ["X"]}, ["X"]])
        elif r < 0.75:
            # an axis set the grid has no metrics for yet
            vals.insert(rng.randrange(1, len(vals) + 1), "no_such_metric")
            key = {"$tuple": ["X", rng.choice([a for a in info["axn"] if a != "X"] or ["X"])]}
        else:
            key = {"$tuple": ["X", "Q"]}
        return {"op": "method", "grid": g, "name": "set_metrics", "pos": [key, vals],
                "kw": {"overwrite": rng.random() < 0.7}}
    if kind == "get_metric":
        return {"op": "method", "grid": g, "name": "get_metric",
                "pos": [{"$a": idx[rng.choice(["c", "u"])]}, rng.choice([["X"], axn[:2]])], "kw": {}}
    if kind == "interp_like":
        kw = {}
        if rng.random() < 0.6:
            kw["boundary"] = _maybe_shared(rng, info, "boundary_total", "extend")
        return {"op": "method", "grid": g, "name": "interp_like", "pos": [{"$a": idx["u"]}, {"$a": idx["c"]}], "kw": kw}
    if kind == "transform":
        method = rng.choice(["linear", "log", "conservative"])
        kw = {"method": method}
        if method == "conservative":
            kw["target_data"] = {"$a": idx[rng.choice(["td_o", "td_c", "td_c2"])]}
            target = {"$n": 1}
        else:
            kw["target_data"] = {"$a": idx[rng.choice(["td_c", "td_c", "td_c2"])]}
            # ({"$n": 1} holds a level at 0: the edge of the domain of the logarithm)
            target = rng.choice([{"$n": 0}, {"$a": idx["lev"]}, {"$n": 1}])
            if rng.random() < 0.5:
                kw["mask_edges"] = False
        if rng.random() < 0.3:
            kw["suffix"] = "_z"
        return {"op": "method", "grid": g, "name": "transform", "pos": [{"$a": idx["c"]}, "Z", target], "kw": kw}
    raise AssertionError(kind)


def illpose(rng, call):
    """A single ill-posing edit of a valid call."""
    c = copy.deepcopy(call)
    edits = []
    if c["op"] == "method" and len(c["pos"]) >= 2 and c["name"] not in ("get_metric", "interp_like"):
        edits += ["axis_unknown", "axis_second_unknown"]
    if "to" in c.get("kw", {}) or (c["op"] == "method" and c["name"] in ("diff", "interp", "min", "max", "cumsum")):
        edits += ["to_bogus", "to_same"]
    if c["op"] in ("method", "pad", "apply_ufunc") and c.get("name") not in ("integrate", "average", "get_metric", "transform"):
        edits += ["boundary_bogus"]
    if c["op"] == "Grid":
        edits += ["coords_bad_dim", "boundary_bogus_ctor", "fill_nonnumeric"]
    if not edits:
        edits = ["kw_unknown"]
    e = rng.choice(edits)
    if e == "axis_unknown":
        c["pos"][1] = "Q"
    elif e == "axis_second_unknown":
        a = c["pos"][1]
        if isinstance(a, dict):
            a = ["X"]
        c["pos"][1] = (a if isinstance(a, list) else [a]) + ["Q"]
    elif e == "to_bogus":
        c["kw"]["to"] = "nowhere"
    elif e == "to_same":
        c["kw"]["to"] = "center"
    elif e == "boundary_bogus":
        c["kw"]["boundary"] = "bogus"
    elif e == "coords_bad_dim":
        c["kw"]["coords"] = {"X": {"center": "no_such_dim"}}
    elif e == "boundary_bogus_ctor":
        c["kw"]["boundary"] = "bogus"
    elif e == "fill_nonnumeric":
        c["kw"]["fill_value"] = "abc"
    else:
        c["kw"]["no_such_keyword"] = 1
    return c, e


def make_case(seed_i, tier):
    rng = core.stream(seed_i, "workload")
    frng = core.stream(seed_i, "faults")
    ws, info = (gen_face_world(rng) if rng.random() < 0.4 else gen_simple_world(rng))
    maxops = 3 if tier == "quick" else 5
    nops = rng.randint(2, maxops)
    ops = []
    base = [gen_op(rng, ws, info) for _ in range(rng.randint(1, nops))]
    if "td_c2" in info["idx"]:
        # the same call on the twin profile (same name, dims and position, other values) joins the base set
        a, b = info["idx"]["td_c"], info["idx"]["td_c2"]
        for call in list(base):
            txt = json.dumps(call)
            for x, y in ((a, b), (b, a)):
                if json.dumps({"$a": x}) in txt and rng.random() < 0.6:
                    base.append(json.loads(txt.replace(json.dumps({"$a": x}), json.dumps({"$a": y}))))
                    break
    inject_at = frng.randrange(nops) if frng.random() < 0.3 else None
    for j in range(nops):
        # re-use: repeat an earlier call verbatim, or draw from the small base set
        call = copy.deepcopy(rng.choice(base))
        op = {"call": call}
        r = frng.random()
        if inject_at == j:
            op["fault"] = {"kind": "inject", "frac": round(frng.random(), 6)}
        elif r < 0.15:
            call2, e = illpose(frng, call)
            op = {"call": call2, "fault": {"kind": "refused", "edit": e}}
        elif r < 0.45 and call["op"] == "apply_ufunc":
            call2 = copy.deepcopy(call)
            call2["func"] = "raises"
            op = {"call": call2, "fault": {"kind": "user_raise"}}
        ops.append(op)
    lrng = core.stream(seed_i, "lazy")
    if lrng.random() < 0.15:
        # lazy world: the arrays the caller passes (and, in half of these worlds, the grid dataset) are dask-backed,
        # chunked by an independent random composition of every dimension (face worlds: face and non-spatial
        # dimensions only); results are computed with dask's synchronous scheduler
        sizes = worlds.dim_sizes(ws["gspec"])
        allowed = None if ws["kind"] == "simple" else {"face", "t"}
        for a in ws["arrays"]:
            if all(d in sizes for d in a["dims"]):
                a["chunks"] = {d: list(worlds.compositions(lrng, sizes[d])) for d in a["dims"]
                               if allowed is None or d in allowed}
        if lrng.random() < 0.5:
            ws["gspec"]["ds_chunks"] = {d: list(worlds.compositions(lrng, n)) for d, n in sizes.items()
                                        if allowed is None or d in allowed}
    spec = {"world": ws, "ops": ops}
    crng = core.stream(seed_i, "cold")
    if (ops[0].get("fault") or {}).get("kind") == "inject" and crng.random() < 0.25:
        # cold start: the interrupted call is the very first xgcm call of a fresh interpreter (crash at an arbitrary
        # point of start-up work: lazily built module-level tables), the rest of the history follows in that process
        spec["cold"] = True
    if frng.random() < 0.12:
        # fault kind: warnings escalated to exceptions for the whole history (fresh reference runs included)
        spec["warn"] = "error"
    return spec


def refs_in(x, acc):
    if isinstance(x, dict):
        if len(x) == 1 and next(iter(x)) in ("$a", "$m", "$n", "$u"):
            (k, v), = x.items()
            acc.append((k, v))
        else:
            for v in x.values():
                refs_in(v, acc)
    elif isinstance(x, list):
        for v in x:
            refs_in(v, acc)


def shape_and_trivia(spec, outcomes):
    per_step = []
    for op in spec["ops"]:
        acc = []
        refs_in(op["call"], acc)
        per_step.append(sorted(set(acc)))
    shared = 0
    seen = set()
    for s in per_step:
        for r in s:
            if r in seen:
                shared += 1
            seen.add(r)
    has_fault = any(op.get("fault") for op in spec["ops"]) or bool(spec.get("warn"))
    shape = core.digest([spec["world"]["kind"],
                         [(_opname(op), sorted(op["call"].get("kw", {})), (op.get("fault") or {}).get("kind"))
                          for op in spec["ops"]], per_step, outcomes, spec.get("warn")], 12)
    return shape, (shared > 0 or has_fault), shared


# ------------------------------------------------------------ minimisation
def minimise(spec, fingerprint):
    budget = [60]

    def test(s):
        v, _ = execute(s)
        return bool(v) and v["fingerprint"] == fingerprint

    def cands(s):
        for i in range(len(s["ops"])):
            t = copy.deepcopy(s)
            del t["ops"][i]
            if t["ops"]:
                yield t
        if s.get("warn"):
            t = copy.deepcopy(s)
            del t["warn"]
            yield t
        for i, op in enumerate(s["ops"]):
            if op.get("fault") and op["fault"].get("kind") == "inject":
                t = copy.deepcopy(s)
                del t["ops"][i]["fault"]
                yield t
        for i, op in enumerate(s["ops"]):
            for k in list(op["call"].get("kw", {})):
                if k in ("axis", "signature", "boundary_width", "other_component", "coords",
                         "autoparse_metadata", "target_data", "method"):
                    continue
                t = copy.deepcopy(s)
                del t["ops"][i]["call"]["kw"][k]
                yield t

    s = core.greedy(copy.deepcopy(spec), cands, test, budget)
    return s, 60 - budget[0]


# ------------------------------------------------------------------ engine
def canary_outcomes(ncan=10):
    """Outcomes of a fixed set of operations, each issued first on a fresh world.  Evaluated when a
    worker starts and again when it has finished its shard: between the two lie hundreds of
    histories on other Grid objects, so a difference means that some operation left state behind
    *outside* the objects it was given (module-level caches, mutable defaults, shared predefined
    ufunc objects) that changes later results."""
    outs = []
    for j in range(ncan):
        spec = make_case(core.derive("C18-canary", j), "quick")
        row = []
        for op in spec["ops"]:
            if (op.get("fault") or {}).get("kind") == "inject":
                continue
            w = build_world(spec["world"])
            o, _, _ = run_op(w, op["call"])
            row.append([_opname(op), core.digest(o)])
            if j % 2 == 0:
                # the same operation with xgcm's warnings escalated to exceptions (state that only decides whether a
                # warning is issued is invisible otherwise)
                w = build_world(spec["world"])
                o, _, _ = run_op(w, op["call"], warn="error")
                row.append([_opname(op) + "[warnings-as-errors]", core.digest(o)])
        outs.append(row)
    return outs


class Engine:
    prop = "C18"

    def __init__(self):
        self.cnt = Counters()
        self.nsamples = 0
        self.minimised = set()
        self.canary_before = canary_outcomes()

    def finish(self, args):
        after = canary_outcomes()
        self.cnt.inc("canary_ops_compared", sum(len(r) for r in after))
        for j, (a, b) in enumerate(zip(self.canary_before, after)):
            if a != b:
                k = [i for i, (x, y) in enumerate(zip(a, b)) if x != y][0]
                return [{"fingerprint": f"C18/history-dependent/across-objects/{a[k][0]}",
                         "spec": {"canary_replay": {"seed": args.seed, "shard": args.shard, "nshards": args.nshards,
                                                    "runs": args.runs, "tier": args.tier, "canary": j}},
                         "detail": f"operation {a[k][0]} of canary history {j}, issued first on fresh objects, gave another outcome "
                                   f"after this worker had executed its shard of histories (on other Grid objects) than before: "
                                   f"state is kept outside the objects an operation is given",
                         "min_steps": None}]
        return []

    def run(self, i, seed_i, tier):
        spec = make_case(seed_i, tier)
        self.cnt.inc("histories")
        v, outcomes = execute(spec, self.cnt)
        shape, nt, shared = shape_and_trivia(spec, outcomes)
        self.cnt.inc("shared_object_reuse", shared)
        rec = {"d": core.digest([spec, outcomes, v["fingerprint"] if v else None]),
               "nt": nt, "shape": shape, "viol": None}
        if v:
            if v["fingerprint"] not in self.minimised:
                self.minimised.add(v["fingerprint"])
                mspec, used = minimise(spec, v["fingerprint"])
                v2, _ = execute(mspec)
            else:
                mspec, used, v2 = spec, None, v
            rec["viol"] = {"fingerprint": v["fingerprint"], "spec": mspec,
                           "detail": (v2 or v)["detail"], "min_steps": used}
        if self.nsamples < 2 and i % 5 == 0:
            self.nsamples += 1
            rec["sample"] = {"world_kind": spec["world"]["kind"], "ops": spec["ops"], "outcomes": outcomes}
        return rec

    def stats(self):
        d = dict(self.cnt.c)
        d["op_kinds"] = dict(self.cnt.opkinds)
        return d


def replay(spec):
    if "canary_replay" in spec:
        # re-execute the whole shard in this fresh interpreter, canaries before and after
        import types

        c = spec["canary_replay"]
        eng = Engine()
        for i in range(c["shard"], c["runs"], c["nshards"]):
            spec_i = make_case(core.derive(c["seed"], "C18", i), c["tier"])
            try:
                execute(spec_i, eng.cnt)
            except Exception:  # noqa
                pass
        vs = eng.finish(types.SimpleNamespace(**c))
        return vs[0] if vs else None
    v, _ = execute(spec)
    return v


merge_stats = core.merge_stats

RULE = (
    "Each run builds a world from a JSON spec (simple 1-3 axis grid with metrics and a non-periodic Z axis, or a "
    "2-3 face grid with a random reciprocal or tiling link table): dataset, 3-6 DataArrays (scalars, u/v components, "
    "anonymous/named target_data), ndarrays, 10-12 caller-owned mappings (vector and other_component dicts, total "
    "and partial boundary / fill_value / to / metric_weighted dicts, periodic list, coords, metrics, "
    "face_connections), 1-2 Grids and GridUFunc objects; then executes a history of 2-3 (thorough: 2-5) operations "
    "drawn from Grid(), diff/interp/min/max (scalar, vector, multi-axis), cumsum, derivative, integrate, average, "
    "cumint, metric_weighted ops (mapping values spelled as str / list / tuple), get_metric, interp_like, "
    "diff_2d_vector/interp_2d_vector, apply_as_grid_ufunc, as_grid_ufunc objects (incl. mapping-valued bound options, "
    "called along axes other than the dummy name), padding.pad, transform (3 methods, numba stand-in) and set_metrics "
    "calls that must be refused (unknown variable / axis), arguments referenced by world index so objects are shared "
    "across steps; dataset variables and index coordinates carry attributes, some arrays are anonymous, face tables "
    "are partly sparse and may lack a third grid axis. Faults: ill-posed edit of a valid call, raising user function, "
    "warnings attributed to xgcm escalated to exceptions for a whole history (12% of the histories; as under -W error), "
    "InjectedFault(BaseException) raised by a sys.settrace hook at a line event inside xgcm/*.py - uniformly in 1..T "
    "(T = line events of the same op in its fresh run) or, when the fresh counting run saw the world transiently "
    "modified at some line events, at one of those with probability 0.8. After every step: world snapshot == pristine snapshot "
    "(values, dtype, dims, name, attrs, coords, mapping key order and value identity, Grid settings and registry, "
    "GridUFunc options); outcome == outcome of the same op issued first on a fresh world. Non-trivial = some world "
    "object is referenced by two steps, or a fault is present. Distinct = digest of (world kind, per-step op name, "
    "kwarg names, fault kind, referenced world objects, outcomes)."
)

COMPONENTS = {
    "real": ["all of xgcm (Grid, padding, grid_ufunc, transform bodies)", "xarray", "numpy"],
    "stub": ["numba.guvectorize (pure-Python stand-in, xsim/numba_stub): kernel bodies run unmodified under CPython"],
    "model": ["none: the oracle is the pristine snapshot and the fresh-run outcome"],
}

ASSUMPTIONS = [
    "snapshots cover public observable state of caller-owned objects plus Grid axis settings and the _metrics registry (read-only peek); xarray-internal caches/indexes are not part of the snapshot",
    "an exception injected at a source line inside xgcm models an interrupt/MemoryError; after it only invariant (1) is required for that step",
    "sequential histories only: concurrent use of one Grid from several threads is outside C18's statement",
    "exploration by seeded sampling, not exhaustive",
]
