"""C08: linear / log transform (engine A + numba stand-in); see eng_tr.py."""
from . import eng_tr
from .eng_tr import COMPONENTS, merge_stats, replay  # noqa: F401


class Engine(eng_tr.Engine):
    def __init__(self):
        super().__init__("C08")


RULE = (
    "Each run is one case of the linear/log transform: column length n in 2-6 (thorough 2-8), 0-2 extra (column) "
    "dimensions of size 1-3, strictly monotonic positive target_data per column on multiples of 1/4 (direction chosen "
    "per column, so it varies between columns of one call; bypass_checks=True only with increasing profiles), 1-6 "
    "distinct target levels in random order: inside, outside, exactly at the end values and at interior nodes; "
    "mask_edges on/off; method linear or log; integer-valued data; poisoned allocator as for C07. 35% kernel level "
    "(interp_1d_linear): every column against an independent segment-search interpolant (NaN outside the closed range "
    "iff mask_edges, nearest end value otherwise, log = same in logarithms) to 1e-12, N-D call == 1-D call per column, "
    "permuting the levels permutes the output. 65% through Grid.transform: target as ndarray / 1-D DataArray / N-D "
    "DataArray with target_dim, target_data named or anonymous, data on centres or on outer points, custom suffix; "
    "checks values per column, the name of the new dimension (target's dim, or target_data's name for a bare array) "
    "and of the result (input name + suffix); then the same call on dask-backed input chunked over the column "
    "dimensions is computed under the real synchronous scheduler and 2 (thorough 5) simulated schedules with faults "
    "and must equal the eager result exactly. Non-trivial = more than one column and (kernel level or some column "
    "dimension has > 1 chunk). Distinct = digest of (level, n, column shape, theta profiles, levels/target, method, "
    "mask_edges, chunks)."
)
ASSUMPTIONS = [
    "numba is absent: kernels run as CPython under a stand-in for numba.guvectorize; compiled-code effects are out of reach",
    "values are compared to 1e-12 relative (np.interp vs the segment-search model); NaN placement and names exactly",
    "only finite, strictly monotonic target_data is generated, as the property states",
    "exploration by seeded sampling, not exhaustive",
]
