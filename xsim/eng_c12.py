"""Engine B / C12: hash-seed and table-ordering simulator.

A *schedule* is (PYTHONHASHSEED h of a fresh interpreter, permutation pi of
the insertion order of the face-link table).  h fixes the iteration order of
every set in the interpreter.  The parent selects K hash seeds that together
realise every ordering of the involved 2- and 3-element name sets (probed with
bare interpreters), starts one long-lived worker per seed, streams the same
case specs to all of them and compares outcome digests.  Oracle: all
executions of one case agree.
"""

import copy
import itertools
import json
import os
import random
import subprocess
import sys
import warnings
from concurrent.futures import ThreadPoolExecutor

from . import core, procs, worlds

# ---------------------------------------------------------------- probing
PROBE_SETS = {
    "axes2": ["X", "Y"],
    "axes3": ["X", "Y", "Z"],
    "axes4": ["X", "Y", "Z", "T"],
    "dummy2": ["a", "b"],
    "dummy3": ["lon", "lat", "lev"],
    "names3": ["A0", "A1", "A2"],
}
PROBE_CODE = (
    "import json;S=%s;print(json.dumps({k:list(set(v)) for k,v in S.items()}))" % json.dumps(PROBE_SETS)
)


def probe_seed(h):
    env = {"PYTHONHASHSEED": str(h), "PATH": os.environ.get("PATH", "")}
    out = subprocess.run([sys.executable, "-S", "-E", "-c", PROBE_CODE], env=env, capture_output=True, text=True)
    return h, json.loads(out.stdout)


def choose_hash_seeds(master, k, nprobe):
    """Greedy cover: pick k seeds realising as many (set, ordering) pairs as possible."""
    rng = core.stream(master, "C12", "hashseeds")
    cands = sorted({rng.randrange(1, 2**31) for _ in range(nprobe)})
    with ThreadPoolExecutor(16) as ex:
        probed = list(ex.map(probe_seed, cands))
    universe = set()
    per = {}
    for h, res in probed:
        items = {(name, tuple(order)) for name, order in res.items()}
        per[h] = items
        universe |= items
    chosen, covered = [], set()
    pool = dict(per)
    while len(chosen) < k and pool:
        h = max(sorted(pool), key=lambda x: len(pool[x] - covered))
        chosen.append(h)
        covered |= pool.pop(h)
    coverage = {}
    for name, members in PROBE_SETS.items():
        n = len(members)
        total = 1
        for i in range(2, n + 1):
            total *= i
        got = len({o for (nm, o) in covered if nm == name})
        seen = len({o for (nm, o) in universe if nm == name})
        coverage[name] = {"orders_total": total, "orders_realised_by_chosen_seeds": got,
                          "orders_seen_in_probe": seen}
    return chosen, coverage, len(cands)


# ------------------------------------------------------------- generators
def gen_face_grid(rng, allow_big=False):
    N = rng.randint(3, 4)
    r = rng.random()
    if r < 0.15:
        F, links = 6, copy.deepcopy(worlds.CUBED_SPHERE)
    elif r < 0.5:
        kx, ky = rng.choice([(2, 2), (1, 2), (2, 1), (3, 1), (1, 3), (2, 2)])
        F, links = kx * ky, worlds.tiling_links(kx, ky, rng.random() < 0.5, rng.random() < 0.5)
    else:
        F = rng.randint(2, 5)
        links = worlds.random_reciprocal_links(rng, F)
    if rng.random() < 0.4:
        links = worlds.sparsify(rng, links)
    axes = {"X": {"n": N, "pos": {"center": "xc", "left": "xg"}},
            "Y": {"n": N, "pos": {"center": "yc", "left": "yg"}}}
    if rng.random() < 0.3:
        axes = {"Y": axes["Y"], "X": axes["X"]}
    words = ["fill", "extend", "periodic"]
    g = {"periodic": False, "face_connections": {"face": links},
         "boundary": {"X": rng.choice(words), "Y": rng.choice(words)},
         "fill_value": {"X": float(rng.randint(1, 4)), "Y": float(rng.randint(5, 9))}}
    return {"axes": axes, "extra": {}, "face": {"dim": "face", "n": F}, "grid": g, "vars": {}}


def gen_case(rng, family=None):
    family = family or rng.choice(["pad2d", "pad2d", "pad2d", "faceop", "faceop", "sigeq", "sigeq", "badtable",
                                   "parse", "parse", "metrics", "metrics", "general", "general", "general",
                                   "registry", "mwb", "mwi"])
    words = ["fill", "extend", "periodic"]
    if family in ("pad2d", "faceop"):
        gs = gen_face_grid(rng)
        vector = rng.random() < 0.4
        spec = {"kind": family, "gspec": gs, "vector": vector}
        data = lambda: {"gen": "randint", "seed": rng.randrange(10**6), "lo": -40, "hi": 40}  # noqa
        if vector:
            comp = rng.choice(["X", "Y"])
            u = {"dims": ["face", "yc", "xg"], "data": data(), "name": "u"}
            v = {"dims": ["face", "yg", "xc"], "data": data(), "name": "v"}
            spec["input"], spec["input2"] = (u, v) if comp == "X" else (v, u)
            spec["comp"] = comp
        else:
            px, py = rng.choice(["xc", "xg"]), rng.choice(["yc", "yg"])
            spec["input"] = {"dims": ["face", py, px], "data": data(), "name": "c"}
        kw = {}
        r = rng.random()
        if r < 0.4:
            kw["boundary"] = {"X": rng.choice(words), "Y": rng.choice(words)}
        elif r < 0.55:
            kw["boundary"] = rng.choice(words)
        if rng.random() < 0.4:
            kw["fill_value"] = {"X": float(rng.randint(1, 4)), "Y": float(rng.randint(5, 9))}
        if family == "pad2d":
            w = {"X": [rng.randint(0, 2), rng.randint(0, 2)], "Y": [rng.randint(0, 2), rng.randint(0, 2)]}
            if rng.random() < 0.3:
                w = {"Y": w["Y"], "X": w["X"]}
            if rng.random() < 0.15:
                w.pop(rng.choice(["X", "Y"]))
            spec["widths"] = w
        else:
            spec["opname"] = rng.choice(["diff", "interp", "min", "max"])
            spec["axis"] = rng.choice([["X", "Y"], ["Y", "X"]])
        spec["kw"] = kw
        return spec
    if family == "badtable":
        # accept/reject outcome of Grid(...) for a link table with one ill-posing edit (or none)
        gs = gen_face_grid(rng)
        links = gs["grid"]["face_connections"]["face"]
        F = gs["face"]["n"]
        edges = [(f, a, sd) for f, axl in links.items() for a, lr in axl.items() for sd in (0, 1) if lr[sd] is not None]
        edit = rng.choice(["none", "wrong_face", "wrong_axis", "flip_reverse", "drop_backlink", "drop_backlink"])
        if edges and edit != "none":
            f, a, sd = rng.choice(edges)
            tgt = list(links[f][a][sd])
            if edit == "wrong_face":
                tgt[0] = (tgt[0] + 1 + rng.randrange(max(F - 1, 1))) % F
                links[f][a][sd] = tgt
            elif edit == "wrong_axis":
                tgt[1] = "Y" if tgt[1] == "X" else "X"
                links[f][a][sd] = tgt
            elif edit == "flip_reverse":
                tgt[2] = not tgt[2]
                links[f][a][sd] = tgt
            else:
                links[f][a][sd] = None
        return {"kind": "badtable", "gspec": gs, "edit": edit}
    if family == "sigeq":
        names_pool = ["X", "Y", "Z", "lon", "lat", "lev", "a", "b", "A0", "A1", "A2", "ax", "ay", "q", "p"]
        k = rng.choice([2, 2, 3])
        d1 = rng.sample(names_pool, k)
        d2 = rng.sample(names_pool, k)
        nin, nout = rng.randint(1, 3), rng.randint(0, 2)
        posn = ["center", "left", "right", "inner", "outer"]

        def arg():
            m = rng.randint(1, k)
            idx = rng.sample(range(k), m)
            return [(i, rng.choice(posn)) for i in idx]

        ins = [arg() for _ in range(nin)]
        outs = [arg() for _ in range(nout)]
        # make sure every dummy index appears at least once
        used = {i for a in ins + outs for i, _ in a}
        for i in range(k):
            if i not in used:
                ins[0].append((i, rng.choice(posn)))

        def render(ins, outs, names):
            f = lambda a: "(" + ",".join(f"{names[i]}:{p}" for i, p in a) + ")"  # noqa
            return ",".join(f(a) for a in ins) + "->" + (",".join(f(a) for a in outs) if outs else "()")

        s1 = render(ins, outs, d1)
        mode = rng.choice(["renamed", "renamed", "renamed", "perm_pos", "swap_names"])
        if mode == "renamed":
            s2 = render(ins, outs, d2)
        elif mode == "perm_pos":
            ins2 = [[(i, rng.choice(posn)) for i, p in a] for a in ins]
            s2 = render(ins2, outs, d2)
        else:
            perm = list(range(k))
            rng.shuffle(perm)
            s2 = render([[(perm[i], p) for i, p in a] for a in ins], [[(perm[i], p) for i, p in a] for a in outs], d2)
        return {"kind": "sigeq", "sig1": s1, "sig2": s2, "mode": mode}
    if family == "parse":
        conv = rng.choice(["comodo", "comodo", "sgrid"])
        if conv == "comodo":
            k = rng.randint(2, 4)
            axn = rng.sample(["X", "Y", "Z", "T"], k)
            axes = {}
            for a in axn:
                other = rng.choice(["left", "right", "outer", "inner"])
                axes[a] = {"n": rng.randint(3, 4), "other": other}
                if rng.random() < 0.4:
                    # several shifted coordinates on one axis (three or four positions), sometimes two of them at
                    # the same position: which dimension a position maps to must not depend on the hash seed
                    more = rng.sample([p for p in ["left", "right", "outer", "inner"] if p != other], rng.choice([1, 1, 2]))
                    axes[a]["others"] = [other] + more
                    if rng.random() < 0.35:
                        axes[a]["dup"] = rng.choice(axes[a]["others"])
            spec = {"kind": "parse", "conv": "comodo", "axes": axes, "fill": float(rng.randint(1, 5)),
                    "seed": rng.randrange(10**6)}
            if rng.random() < 0.25:
                # malformed on two axes in different ways: which one is reported must not depend on the hash seed
                a1, a2 = rng.sample(axn, 2)
                spec["malformed"] = {a1: "two_centers", a2: rng.choice(["bad_shift", "bad_length"])}
            return spec
        nd = rng.choice([2, 2, 3])
        pads = [rng.choice(["high", "low", "both", "none"]) for _ in range(3)]
        spec = {"kind": "parse", "conv": "sgrid", "ndim": nd, "vertical": nd == 2 and rng.random() < 0.6,
                "pads": pads, "n": [rng.randint(3, 4) for _ in range(3)], "fill": float(rng.randint(1, 5)),
                "seed": rng.randrange(10**6)}
        if rng.random() < 0.3:
            i1, i2 = rng.sample(range(nd), 2)
            spec["malformed"] = {str(i1): "unknown_padding", str(i2): "node_dim_missing"}
        return spec
    if family == "metrics":
        axn = ["X", "Y", "Z"]
        rng.shuffle(axn)
        blocks = [("X",), ("Y",), ("Z",), ("X", "Y"), ("Y", "Z"), ("X", "Z")]
        reg = [b for b in blocks if rng.random() < 0.7]
        if rng.random() < 0.15:
            reg.append(("X", "Y", "Z"))
        rng.shuffle(reg)
        req = rng.choice([["X", "Y", "Z"], ["Z", "Y", "X"], ["Y", "X", "Z"], ["X", "Y"], ["Y", "Z"]])
        out = {"kind": "metrics", "axis_order": axn, "registry": [list(b) for b in reg], "request": req,
               "op": rng.choice(["get_metric", "integrate", "average"]), "seed": rng.randrange(10**6)}
        if rng.random() < 0.3:
            # only one-axis metrics, three axes requested: a single partition, but the order in which its three
            # factors are multiplied shows in the dimension order of the product and (generic values) in its last bits
            singles = [["X"], ["Y"], ["Z"]]
            rng.shuffle(singles)
            out.update(registry=singles, generic_values=True,
                       request=rng.choice([["X", "Y", "Z"], ["Z", "Y", "X"], ["Y", "X", "Z"], ["Z", "X", "Y"]]))
        return out
    if family == "mwi":
        # a metric that has to be interpolated along two (or three) axes at once to reach the data's position;
        # generic (non-dyadic) values, so that the order of the 1-D interpolations shows in the last bit
        axn = ["X", "Y", "Z"][: rng.choice([2, 2, 3])]
        rng.shuffle(axn)
        return {"kind": "mwi", "axis_order": axn, "data_pos": {a: rng.choice(["left", "left", "center"]) for a in axn},
                "op": rng.choice(["get_metric", "integrate", "average", "interp_like", "interp_mw"]),
                "faces": rng.random() < 0.3, "seed": rng.randrange(10**6)}
    if family == "mwb":
        # metric-aware operations on data that has FEWER dimensions than the metric (the result broadcasts
        # against dimensions the input lacks, or the call is refused - identically under every hash seed)
        axn = ["X", "Y", "Z"]
        rng.shuffle(axn)
        ddims = rng.sample(axn, rng.choice([1, 1, 2]))
        opax = rng.choice(ddims)
        mdims = [a for a in axn if a == opax or rng.random() < 0.8]
        return {"kind": "mwb", "axis_order": axn, "data_axes": ddims, "op_axis": opax, "metric_axes": mdims,
                "op": rng.choice(["interp", "diff", "cumsum", "integrate", "average", "derivative", "cumint"]),
                "seed": rng.randrange(10**6)}
    if family == "registry":
        # a C16-style registration history; outcome = all get_metric reads after the last call
        from . import eng_c16

        return {"kind": "registry", "history": eng_c16.gen_history(rng, "quick", faulty=rng.random() < 0.3)}
    if family == "general":
        from . import eng_c06

        sub = eng_c06.gen_face_case(rng, "quick") if rng.random() < 0.4 else eng_c06.gen_simple_case(rng, "quick")
        # half of the general cases take the lazy route (inputs chunked as the C06 case says, result
        # computed with dask's real synchronous scheduler, which is deterministic): the dask-only code
        # (boundary-chunk merge, map_overlap wrapper, re-chunking) must not depend on the hash seed either
        return {"kind": "general", "c06": sub, "lazy": rng.random() < 0.5}
    raise ValueError(family)


# ----------------------------------------------------------------- execute
def permute_links(fcj, pi):
    """Same links, other insertion order (faces and per-face axes)."""
    if pi == 0 or not fcj:
        return fcj
    r = random.Random(pi)
    out = {}
    for facedim, faces in fcj.items():
        fk = list(faces)
        r.shuffle(fk)
        out[facedim] = {}
        for f in fk:
            ak = list(faces[f])
            r.shuffle(ak)
            out[facedim][f] = {a: faces[f][a] for a in ak}
    return out


def permute_mappings(kw, pi):
    """Same keyword mappings, other key order (boundary / fill_value / to / metric_weighted given per axis):
    equal mappings are the same argument."""
    if pi == 0 or not kw:
        return kw
    r = random.Random(pi + 17)
    out = {}
    for k, v in kw.items():
        if k in ("boundary", "fill_value", "to", "metric_weighted") and isinstance(v, dict) and len(v) > 1:
            keys = list(v)
            r.shuffle(keys)
            out[k] = {a: v[a] for a in keys}
        else:
            out[k] = v
    return out


def _res_digest(res):
    import numpy as np
    import xarray as xr

    if isinstance(res, xr.DataArray):
        coords = sorted((str(n), tuple(c.dims), core.array_digest(np.asarray(c.values))) for n, c in res.coords.items())
        return ["da", list(res.dims), str(res.dtype), core.array_digest(np.asarray(res.values)), coords, res.name]
    if isinstance(res, dict):
        return ["dict", [[k, _res_digest(v)] for k, v in res.items()]]
    if isinstance(res, (list, tuple)):
        return ["seq", [_res_digest(v) for v in res]]
    return ["lit", repr(res)]


def _declared_chunks(res):
    """block structure a lazy result announces (part of the outcome of a lazy general case)"""
    import xarray as xr

    if isinstance(res, xr.DataArray):
        ch = res.variable.chunks
        return None if ch is None else [list(map(int, c)) for c in ch]
    if isinstance(res, dict):
        return [[k, _declared_chunks(v)] for k, v in res.items()]
    if isinstance(res, (list, tuple)):
        return [_declared_chunks(v) for v in res]
    return None


def _comodo_ds(spec):
    import numpy as np
    import xarray as xr

    coords = {}
    dims = []
    for a, ax in spec["axes"].items():
        n = ax["n"]
        c, o = a.lower() + "c", a.lower() + "g"
        coords[c] = ((c,), np.arange(n) + 0.5, {"axis": a})
        other = ax["other"]
        if other == "left":
            coords[o] = ((o,), np.arange(n) * 1.0, {"axis": a, "c_grid_axis_shift": -0.5})
        elif other == "right":
            coords[o] = ((o,), np.arange(n) + 1.0, {"axis": a, "c_grid_axis_shift": 0.5})
        elif other == "outer":
            coords[o] = ((o,), np.arange(n + 1) * 1.0, {"axis": a, "c_grid_axis_shift": -0.5})
        else:
            coords[o] = ((o,), np.arange(n - 1) + 1.0, {"axis": a, "c_grid_axis_shift": -0.5})
        suff = {"left": "g", "right": "r", "outer": "o", "inner": "i"}
        for pos in (ax.get("others") or [])[1:] + ([ax["dup"] + "*"] if ax.get("dup") else []):
            nm = a.lower() + (suff[pos[:-1]] + "q" if pos.endswith("*") else suff[pos])
            pos = pos.rstrip("*")
            if nm in coords:
                nm += "2"
            ln = {"left": n, "right": n, "outer": n + 1, "inner": n - 1}[pos]
            first = {"left": 0.0, "right": 1.0, "outer": 0.0, "inner": 1.0}[pos]
            coords[nm] = ((nm,), np.arange(ln) + first, {"axis": a, "c_grid_axis_shift": 0.5 if pos == "right" else -0.5})
        bad = (spec.get("malformed") or {}).get(a)
        if bad == "two_centers":
            coords[o] = ((o,), coords[o][1], {"axis": a})  # a second coordinate without shift
        elif bad == "bad_shift":
            coords[o] = ((o,), np.arange(n) * 1.0, {"axis": a, "c_grid_axis_shift": 0.25})
        elif bad == "bad_length":
            coords[o] = ((o,), np.arange(n + 3) * 1.0, {"axis": a, "c_grid_axis_shift": -0.5})
        dims.append(c)
    shape = [spec["axes"][a]["n"] for a in spec["axes"]]
    data = np.random.default_rng(spec["seed"]).integers(-30, 30, size=shape).astype("float64")
    ds = xr.Dataset({"q": (dims, data)}, coords=coords)
    return ds, ds["q"]


def _sgrid_ds(spec):
    import numpy as np
    import xarray as xr

    nd = spec["ndim"]
    n = spec["n"]
    names = [("XC", "XG"), ("YC", "YG"), ("ZC", "ZG")]
    padlen = {"high": 0, "low": 0, "both": -1, "none": 1}
    attrs = {"cf_role": "grid_topology", "topology_dimension": nd,
             "node_dimensions": " ".join(names[i][1] for i in range(nd))}
    key = "face_dimensions" if nd == 2 else "volume_dimensions"
    mal = spec.get("malformed") or {}
    parts = []
    for i in range(nd):
        pad_word = "weird" if mal.get(str(i)) == "unknown_padding" else spec["pads"][i]
        node = "NOPE" if mal.get(str(i)) == "node_dim_missing" else names[i][1]
        parts.append(f"{names[i][0]}: {node} (padding: {pad_word})")
    attrs[key] = " ".join(parts)
    sizes = {}
    for i in range(nd):
        sizes[names[i][0]] = n[i]
        sizes[names[i][1]] = n[i] + padlen[spec["pads"][i]]
    dims = [names[i][0] for i in range(nd)]
    if spec.get("vertical"):
        attrs["vertical_dimensions"] = f"ZC: ZG (padding: {spec['pads'][2]})"
        sizes["ZC"] = n[2]
        sizes["ZG"] = n[2] + padlen[spec["pads"][2]]
        dims = ["ZC"] + dims
    shape = [sizes[d] for d in dims]
    data = np.random.default_rng(spec["seed"]).integers(-30, 30, size=shape).astype("float64")
    coords = {d: ((d,), np.arange(s) * 1.0) for d, s in sizes.items()}
    ds = xr.Dataset({"grid": ((), np.array(1, dtype="int32"), attrs), "q": (dims, data)}, coords=coords,
                    attrs={"Conventions": "SGRID-0.3"})
    return ds, ds["q"]


def execute(spec, pi=0):
    """Returns outcome digest (JSON-able) for one (case, pi) in *this* interpreter."""
    import numpy as np
    import xarray as xr
    import xgcm
    from xgcm import padding
    from xgcm.grid_ufunc import _GridUFuncSignature

    kind = spec["kind"]
    with warnings.catch_warnings():
        warnings.simplefilter("ignore")
        try:
            if kind in ("pad2d", "faceop"):
                gs = copy.deepcopy(spec["gspec"])
                gs["grid"]["face_connections"] = permute_links(gs["grid"]["face_connections"], pi)
                ds = worlds.build_ds(gs)
                grid = worlds.build_grid(ds, gs)
                sizes = dict(ds.sizes)
                da = worlds.attach_coords(worlds.build_da(sizes, spec["input"]), ds)
                kw = permute_mappings(copy.deepcopy(spec["kw"]), pi)
                if spec.get("vector"):
                    da2 = worlds.attach_coords(worlds.build_da(sizes, spec["input2"]), ds)
                    comp = spec["comp"]
                    other = "Y" if comp == "X" else "X"
                    data = {comp: da}
                    kw["other_component"] = {other: da2}
                else:
                    data = da
                if kind == "pad2d":
                    res = padding.pad(data, grid, boundary_width={a: tuple(w) for a, w in spec["widths"].items()}, **kw)
                else:
                    res = getattr(grid, spec["opname"])(data, spec["axis"], **kw)
                return ["ok", _res_digest(res)]
            if kind == "badtable":
                gs = copy.deepcopy(spec["gspec"])
                gs["grid"]["face_connections"] = permute_links(gs["grid"]["face_connections"], pi)
                ds = worlds.build_ds(gs)
                grid = worlds.build_grid(ds, gs)
                return ["ok", ["accepted", list(grid.axes)]]
            if kind == "sigeq":
                s1 = _GridUFuncSignature.from_string(spec["sig1"])
                s2 = _GridUFuncSignature.from_string(spec["sig2"])
                return ["ok", [bool(s1.equivalent(s2)), bool(s2.equivalent(s1)), bool(s1.equivalent(s1))]]
            if kind == "parse":
                ds, q = (_comodo_ds(spec) if spec["conv"] == "comodo" else _sgrid_ds(spec))
                grid = xgcm.Grid(ds, periodic=False)
                out = [list(grid.axes), [[a, list(ax.coords.items())] for a, ax in grid.axes.items()], repr(grid)]
                axes = [a for a in grid.axes if any(d in q.dims for d in grid.axes[a].coords.values())]
                try:
                    r1 = grid.diff(q, axes[:2], boundary="fill", fill_value=spec["fill"])
                    out.append(_res_digest(r1))
                except Exception as e:  # noqa
                    out.append("exc:" + type(e).__name__)
                try:
                    r2 = grid.interp(q, axes, boundary="extend")
                    out.append(_res_digest(r2))
                except Exception as e:  # noqa
                    out.append("exc:" + type(e).__name__)
                return ["ok", out]
            if kind == "metrics":
                n = {"X": 3, "Y": 4, "Z": 2}
                axes = {a: {"n": n[a], "pos": {"center": a.lower() + "c", "left": a.lower() + "g"}} for a in spec["axis_order"]}
                gs = {"axes": axes, "extra": {}, "vars": {}, "grid": {"periodic": False, "boundary": "extend"}}
                primes = [2, 3, 5, 7, 11, 13, 17, 19, 23]
                metrics = {}
                for i, b in enumerate(spec["registry"]):
                    nm = "m_" + "".join(b).lower()
                    gs["vars"][nm] = {"dims": [x.lower() + "c" for x in b], "data": {"gen": "const", "v": primes[i]}}
                    metrics[",".join(b)] = [nm]
                gs["grid"]["metrics"] = metrics
                ds = worlds.build_ds(gs)
                if spec.get("generic_values"):
                    rgm = np.random.default_rng(spec["seed"] + 1)
                    for b in spec["registry"]:
                        nm = "m_" + "".join(b).lower()
                        ds[nm] = (ds[nm].dims, 0.5 + rgm.random(ds[nm].shape))
                grid = worlds.build_grid(ds, gs)
                data = np.random.default_rng(spec["seed"]).integers(1, 9, size=(n["Z"], n["Y"], n["X"])).astype("float64")
                da = xr.DataArray(data, dims=["zc", "yc", "xc"])
                if spec["op"] == "get_metric":
                    res = grid.get_metric(da, spec["request"])
                elif spec["op"] == "integrate":
                    res = grid.integrate(da, spec["request"])
                else:
                    res = grid.average(da, spec["request"])
                return ["ok", _res_digest(res)]
            if kind == "mwi":
                n = {"X": 4, "Y": 3, "Z": 3}
                axn = spec["axis_order"]
                axes = {a: {"n": n[a], "pos": {"center": a.lower() + "c", "left": a.lower() + "g"}} for a in axn}
                gs = {"axes": axes, "extra": {}, "vars": {}, "grid": {"periodic": False, "boundary": "extend"}}
                if spec.get("faces") and set(axn) >= {"X", "Y"}:
                    axes["Y"]["n"] = axes["X"]["n"] = 3
                    gs["face"] = {"dim": "face", "n": 2}
                    links = {"0": {"X": [None, [1, "Y", False]]}, "1": {"Y": [[0, "X", False], None]}}
                    gs["grid"]["face_connections"] = {"face": permute_links({"face": links}, pi)["face"]}
                sizes = worlds.dim_sizes(gs)
                rg = np.random.default_rng(spec["seed"])
                pre = ["face"] if gs.get("face") else []
                mdims = pre + [a.lower() + "c" for a in axn]
                ddims = pre + [axes[a]["pos"][spec["data_pos"][a]] for a in axn]
                ds = worlds.build_ds(gs)
                ds["vol"] = (mdims, 0.5 + rg.random([sizes[d] for d in mdims]))
                import xgcm as _x

                kw = worlds.grid_kwargs(gs)
                kw["metrics"] = {tuple(axn): ["vol"]}
                grid = _x.Grid(ds, **kw)
                da = xr.DataArray(rg.random([sizes[d] for d in ddims]), dims=ddims, name="q")
                op = spec["op"]
                if op == "get_metric":
                    res = grid.get_metric(da, axn)
                elif op == "integrate":
                    res = grid.integrate(da, axn)
                elif op == "average":
                    res = grid.average(da, axn)
                elif op == "interp_like":
                    res = grid.interp_like(ds["vol"], da, boundary="extend")
                else:
                    res = grid.interp(da, axn[0], metric_weighted=list(axn), boundary="extend")
                return ["ok", _res_digest(res)]
            if kind == "mwb":
                n = {"X": 3, "Y": 2, "Z": 4}
                axes = {a: {"n": n[a], "pos": {"center": a.lower() + "c", "left": a.lower() + "g"}} for a in spec["axis_order"]}
                gs = {"axes": axes, "extra": {}, "vars": {}, "grid": {"periodic": False, "boundary": "extend"}}
                oa = spec["op_axis"]
                for pos in ("c", "g"):
                    md = [a.lower() + ("c" if a != oa else pos) for a in spec["metric_axes"]]
                    gs["vars"]["m_" + pos] = {"dims": md, "data": {"gen": "dyadic", "seed": spec["seed"] + ord(pos)}}
                gs["grid"]["metrics"] = {oa: ["m_c", "m_g"]}
                ds = worlds.build_ds(gs)
                grid = worlds.build_grid(ds, gs)
                dd = [a.lower() + "c" for a in spec["data_axes"]]
                shape = [n[a] for a in spec["data_axes"]]
                data = np.random.default_rng(spec["seed"]).integers(1, 9, size=shape).astype("float64")
                da = xr.DataArray(data, dims=dd, name="T")
                op = spec["op"]
                if op in ("interp", "diff", "cumsum"):
                    res = getattr(grid, op)(da, oa, metric_weighted=[oa])
                else:
                    res = getattr(grid, op)(da, oa)
                return ["ok", _res_digest(res)]
            if kind == "registry":
                from . import eng_c16

                v, outcomes, reads = eng_c16.execute(spec["history"], None, None, check_regroup=False)
                return ["ok", [outcomes, reads, v["fingerprint"] if v else None]]
            if kind == "general":
                from . import eng_c06

                sub = copy.deepcopy(spec["c06"])
                g = sub["gspec"]["grid"]
                if g.get("face_connections"):
                    g["face_connections"] = permute_links(g["face_connections"], pi)
                sub["op"]["kw"] = permute_mappings(sub["op"].get("kw", {}), pi)
                ds = worlds.build_ds(sub["gspec"])
                grid = worlds.build_grid(ds, sub["gspec"])
                da, da2 = eng_c06.build_inputs(sub, ds)
                if spec.get("lazy"):
                    import dask

                    da = da.chunk({d: tuple(c) for d, c in (sub.get("chunks") or {}).items()})
                    if da2 is not None:
                        da2 = da2.chunk({d: tuple(c) for d, c in (sub.get("chunks2") or {}).items()})
                    if sub.get("lazy_ds"):
                        lds = ds.chunk({d: tuple(c) for d, c in sub["lazy_ds"].items() if d in ds.dims})
                        grid = worlds.build_grid(lds, sub["gspec"])
                    res = eng_c06.call_op(grid, sub["op"], da, da2, sub.get("vector"))
                    declared = _declared_chunks(res)
                    with dask.config.set(scheduler="synchronous"):
                        res = eng_c06.compute_all([res])[0]
                    return ["ok", _res_digest(res), declared]
                res = eng_c06.call_op(grid, sub["op"], da, da2, sub.get("vector"), eager=True)
                res = eng_c06.compute_all([res])[0]
                return ["ok", _res_digest(res)]
        except Exception as e:  # noqa
            if kind == "badtable":
                # the property speaks of accept/reject outcomes: which inconsistency of an
                # ill-formed table is met first (and hence the exception type) may depend on
                # the listing order, the refusal itself may not
                return ["exc", "rejected"]
            return ["exc", type(e).__name__]
    raise ValueError(kind)


def involved_orders(spec):
    """Iteration orders, in this interpreter, of the name sets the case involves
    (only for the non-trivial rule; not part of the outcome)."""
    kind = spec["kind"]
    if kind in ("pad2d", "faceop", "badtable"):
        return [list(set(["X", "Y"]))]
    if kind == "sigeq":
        import re

        out = []
        for s in (spec["sig1"], spec["sig2"]):
            names = re.findall(r"(\w+):", s)
            out.append(list(set(names)))
        return out
    if kind == "parse":
        if spec["conv"] == "comodo":
            return [list(set(spec["axes"]))]
        return [list(set(["X", "Y", "Z"][: 3 if (spec["ndim"] == 3 or spec.get("vertical")) else 2]))]
    if kind == "metrics":
        return [list(frozenset(spec["request"]))]
    if kind == "general":
        return [list(set(spec["c06"]["gspec"]["axes"]))]
    if kind == "registry":
        return [list(set(["X", "Y"])), list(frozenset(["X", "Y"]))]
    if kind == "mwb":
        return [list(set(a.lower() + "c" for a in spec["axis_order"]))]
    if kind == "mwi":
        return [list(set(spec["axis_order"]))]
    return []


def serve(args):
    """Worker: answers {"id", "case", "perms"} requests line by line."""
    import faulthandler

    faulthandler.enable()
    import xgcm  # noqa (pay the import once)

    sys.stdout.write(json.dumps({"k": "ready", "hashseed": os.environ.get("PYTHONHASHSEED")}) + "\n")
    sys.stdout.flush()
    for line in sys.stdin:
        line = line.strip()
        if not line:
            continue
        req = json.loads(line)
        if req.get("k") == "quit":
            break
        try:
            out = [execute(req["case"], pi) for pi in req["perms"]]
            orders = involved_orders(req["case"])
            resp = {"id": req["id"], "out": [core.digest(o) for o in out],
                    "kinds": [o[0] if o[0] == "ok" else "exc:" + o[1] for o in out], "orders": orders}
        except Exception as e:  # noqa
            import traceback

            resp = {"id": req["id"], "harness": traceback.format_exc()[-2000:]}
        sys.stdout.write(json.dumps(resp) + "\n")
        sys.stdout.flush()
    return 0


# ------------------------------------------------------------------ parent
RULE = (
    "Each case is executed in K fresh interpreters (K=16 quick, 48 thorough) whose PYTHONHASHSEED values were "
    "selected, by probing ~1200 (thorough 4000) candidate seeds with bare interpreters, to realise every ordering "
    "of the 2- and 3-element name sets involved and as many 4-element orderings as found; in each interpreter the "
    "case is run under the identity and two random permutations of the insertion order of the face-link table "
    "(faces and per-face axis entries) and of the per-axis keyword mappings boundary / fill_value / to / "
    "metric_weighted (equal mappings are the same argument; the order of boundary_width is NOT permuted). Case families: 2-D halo padding on face-connected grids (cubed sphere, "
    "tilings, random reciprocal tables; asymmetric widths 0-2 on both axes; different boundary rules and fill "
    "values per axis; scalar and vector input), two-axis diff/interp/min/max on the same grids, acceptance or "
    "refusal of link tables carrying one ill-posing edit (wrong face, wrong axis, flipped reverse flag, missing "
    "back-link), pairs of "
    "multi-axis grid-ufunc signatures (consistent renaming, permuted positions, swapped names) judged by "
    "equivalent() in both directions, Grid construction from COMODO (2-4 axes) and SGRID (2-D, 2-D+vertical, 3-D) "
    "metadata followed by order-sensitive two-axis operations, metric registries offering several partitions of "
    "the requested axes with mutually inconsistent (prime) values queried by get_metric/integrate/average, "
    "C16-style registration histories read back through get_metric, metric-aware operations on data with fewer "
    "dimensions than the metric (broadcast or refusal), and a slice of the C06 corpus (all operation "
    "kinds incl. user grid ufuncs) run eagerly. Outcome digest = exception type or values/dtype/dims/coords (Grid: axis "
    "order and position->dim maps). All K x 3 digests of a case must be equal. Non-trivial = at least two of the "
    "interpreters iterated one of the case's involved name sets in different orders. Distinct = digest of the case "
    "spec."
)
COMPONENTS = {
    "real": ["all of xgcm", "xarray", "numpy", "CPython string hashing (controlled through PYTHONHASHSEED of a fresh interpreter)"],
    "stub": [],
    "model": ["none: differential across schedules"],
}
ASSUMPTIONS = [
    "hash-seed control covers every set of str / tuple / frozenset of str, which is every set in xgcm; objects hashed by address (ASLR) are not controlled",
    "exception messages are not part of the outcome (they may legitimately print a set); exception types are",
    "datasets themselves are not permuted: a Dataset with another variable insertion order counts as another argument",
    "exploration by seeded sampling over cases; the hash-seed dimension is covered to the reported permutation coverage",
]


def parent_main(tier, seed, args):
    clock = core.Clock()
    known = core.Known()
    K = int(os.environ.get("XSIM_HASHSEEDS", 16 if tier == "quick" else 48))
    W = args.runs or int(os.environ.get("XSIM_RUNS", 0)) or (700 if tier == "quick" else 2000)
    nprobe = 1200 if tier == "quick" else 4000
    hseeds, coverage, nprobed = choose_hash_seeds(seed, K, nprobe)
    print(f"[C12] tier={tier} VERIF_SEED={seed} cases={W} hash seeds={K} (chosen from {nprobed} probed)")
    rng_cases = [core.stream(core.derive(seed, "C12", i), "workload") for i in range(W)]
    cases = [gen_case(r) for r in rng_cases]
    perms = [[0, 1 + core.derive(seed, "C12", i, "pi1") % 10**6, 1 + core.derive(seed, "C12", i, "pi2") % 10**6]
             for i in range(W)]
    # waves of 16 servers
    results = [dict() for _ in range(W)]  # case -> {hashseed: resp}
    problems = []
    wave_size = 16
    for w0 in range(0, len(hseeds), wave_size):
        wave = hseeds[w0:w0 + wave_size]
        servers = []
        for h in wave:
            s = procs.Server(h, ["worker", "C12", "--serve"], procs.worker_env(hashseed=h, with_stub=False))
            servers.append(s)
        for s in servers:
            try:
                s.read(timeout=120)
            except Exception as e:  # noqa
                problems.append(f"server {s.tag} did not start: {e}")

        def drive(s):
            try:
                for i, c in enumerate(cases):
                    resp = s.ask({"id": i, "case": c, "perms": perms[i]}, timeout=300)
                    results[i][s.tag] = resp
            except Exception as e:  # noqa
                problems.append(f"server {s.tag}: {e}")

        with ThreadPoolExecutor(len(servers)) as ex:
            list(ex.map(drive, servers))
        for s in servers:
            try:
                s.send({"k": "quit"})
            except Exception:
                pass
            s.close()
    # ---- compare
    viol = {}
    nontriv = set()
    fam_counts, exc_cases = {}, 0
    executions = 0
    for i, c in enumerate(cases):
        fam_counts[c["kind"]] = fam_counts.get(c["kind"], 0) + 1
        res = results[i]
        harness = [r for r in res.values() if "harness" in r]
        if harness:
            problems.append(f"case {i}: harness exception in worker: {harness[0]['harness'][-500:]}")
            continue
        if len(res) != len(hseeds):
            problems.append(f"case {i}: only {len(res)} of {len(hseeds)} interpreters answered")
            continue
        digs = {}
        for h, r in res.items():
            for pi, d, kd in zip(perms[i], r["out"], r["kinds"]):
                digs.setdefault(d, []).append((h, pi, kd))
                executions += 1
        orders = {json.dumps(r["orders"]) for r in res.values()}
        if len(orders) > 1:
            nontriv.add(core.digest(c))
        if any(kd.startswith("exc") for lst in digs.values() for (_, _, kd) in lst):
            exc_cases += 1
        if len(digs) > 1:
            groups = sorted(digs.values(), key=lambda l: -len(l))
            a, b = groups[0][0], groups[1][0]
            same_h = [(x, y) for x in groups[0] for y in groups[1] if x[0] == y[0]]
            same_pi = [(x, y) for x in groups[0] for y in groups[1] if x[1] == y[1]]
            cause = "table-order" if same_h else ("hash-seed" if same_pi else "both")
            if same_h:
                a, b = same_h[0]
            elif same_pi:
                a, b = same_pi[0]
            fp = f"C12/{c['kind']}/{cause}" + (f"/{c.get('conv')}" if c["kind"] == "parse" else "") + \
                 (f"/{'vector' if c.get('vector') else 'scalar'}" if c["kind"] in ("pad2d", "faceop") else "") + \
                 (f"/{c.get('op')}" if c["kind"] == "metrics" else "")
            viol.setdefault(fp, []).append({"i": i, "case": c, "a": a, "b": b, "ngroups": len(digs)})
    reported, known_hits = [], {}
    for fp, vs in viol.items():
        e = known.match_open("C12", fp)
        if e is not None:
            known_hits[fp] = (e, len(vs))
            continue
        v = vs[0]
        spec, a, b, steps = minimise(v["case"], v["a"], v["b"])
        path = core.write_replay("C12", fp, spec, {"schedule_a": {"hashseed": a[0], "pi": a[1]},
                                                   "schedule_b": {"hashseed": b[0], "pi": b[1]},
                                                   "seed": seed, "case_index": v["i"],
                                                   "occurrences_in_batch": len(vs), "minimisation_steps": steps})
        ok, rfp, detail = replay_parent(core.read_replay(path), quiet=True)
        if not ok:
            problems.append(f"violation {fp} (case {v['i']}) did not reproduce on replay of {path}")
            continue
        reported.append((fp, path, detail, len(vs)))
    cov = {
        "evaluations": executions,
        "distinct_nontrivial": len(nontriv),
        "rule": RULE,
        "samples": [{"case": cases[i], "table_permutations": perms[i]} for i in range(0, min(W, 3))],
        "cases": W,
        "hash_seeds": hseeds,
        "hash_seed_candidates_probed": nprobed,
        "permutation_coverage_of_chosen_seeds": coverage,
        "table_orders_per_interpreter": 3,
        "case_families": fam_counts,
        "cases_with_an_exception_outcome": exc_cases,
        "runs_per_hour": int(executions / max(clock.elapsed(), 1e-6) * 3600),
        "simulated_time": "not applicable - xgcm reads no clock",
        "components": COMPONENTS,
        "violations_by_fingerprint": {fp: n for fp, _, _, n in reported},
        "known_findings_hit": {fp: n for fp, (e, n) in known_hits.items()},
        "harness_problems": problems[:5],
    }
    core.write_evidence("C12", tier, seed, cov, ASSUMPTIONS, clock.elapsed(), len(reported))
    print(f"    executions={executions} distinct_nontrivial={len(nontriv)} wall={clock.elapsed():.1f}s")
    for name, c in coverage.items():
        print(f"    set {name}: {c['orders_realised_by_chosen_seeds']}/{c['orders_total']} orderings realised")
    print(f"    families={fam_counts}")
    for fp, (e, n) in known_hits.items():
        print(f"KNOWN-FINDING: property=C12 {e['what']} [fingerprint {fp}, {n} occurrence(s)]")
    for fp, path, detail, n in reported:
        print(f"VIOLATION property=C12 replay={path}")
        print(f"    fingerprint={fp} occurrences={n}")
        print(f"    {detail}")
    for p in problems:
        print(f"HARNESS-ERROR: {p}")
    if reported:
        return core.EXIT_VIOLATION
    if problems or executions == 0:
        return core.EXIT_HARNESS
    return core.EXIT_OK


def _run_pair(spec, a, b):
    """Execute spec under schedules a=(h,pi) and b=(h,pi) in fresh interpreters."""
    outs = []
    for (h, pi) in (a, b):
        s = procs.Server(h, ["worker", "C12", "--serve"], procs.worker_env(hashseed=h, with_stub=False))
        try:
            s.read(timeout=120)
            r = s.ask({"id": 0, "case": spec, "perms": [pi]}, timeout=300)
            s.send({"k": "quit"})
        finally:
            s.close()
        outs.append(r)
    return outs


def minimise(spec, a, b):
    a, b = (a[0], a[1]), (b[0], b[1])
    budget = [14]

    def differs(s, a_, b_):
        budget[0] -= 1
        ra, rb = _run_pair(s, a_, b_)
        if "harness" in ra or "harness" in rb:
            return False
        return ra["out"][0] != rb["out"][0]

    cur = copy.deepcopy(spec)

    def cands(s):
        if s["kind"] in ("pad2d", "faceop"):
            if s.get("kw"):
                for k in list(s["kw"]):
                    t = copy.deepcopy(s)
                    del t["kw"][k]
                    yield t
            if s["kind"] == "pad2d":
                for ax in list(s["widths"]):
                    for j in (0, 1):
                        if s["widths"][ax][j] > 1:
                            t = copy.deepcopy(s)
                            t["widths"][ax][j] = 1
                            yield t
            if s["input"]["data"].get("gen") != "arange":
                t = copy.deepcopy(s)
                t["input"]["data"] = {"gen": "arange"}
                yield t
        if s["kind"] == "metrics":
            for j in range(len(s["registry"])):
                t = copy.deepcopy(s)
                del t["registry"][j]
                yield t

    progress = True
    while progress and budget[0] > 0:
        progress = False
        for t in cands(cur):
            if budget[0] <= 0:
                break
            if differs(t, a, b):
                cur = t
                progress = True
                break
    # simpler schedules: identity permutation on both sides
    if budget[0] > 0 and (a[1] or b[1]) and a[0] != b[0]:
        if differs(cur, (a[0], 0), (b[0], 0)):
            a, b = (a[0], 0), (b[0], 0)
    return cur, a, b, 14 - budget[0]


def replay_parent(body, quiet=False):
    a = (body["schedule_a"]["hashseed"], body["schedule_a"]["pi"])
    b = (body["schedule_b"]["hashseed"], body["schedule_b"]["pi"])
    ra, rb = _run_pair(body["spec"], a, b)
    if "harness" in ra or "harness" in rb:
        raise RuntimeError("harness exception during replay: " + str(ra.get("harness") or rb.get("harness"))[-800:])
    differ = ra["out"][0] != rb["out"][0]
    detail = (f"case of family {body['spec']['kind']}: outcome under (PYTHONHASHSEED={a[0]}, table order pi={a[1]}) is "
              f"{ra['kinds'][0]}:{ra['out'][0]} but under (PYTHONHASHSEED={b[0]}, pi={b[1]}) it is {rb['kinds'][0]}:{rb['out'][0]}; "
              f"set iteration orders {ra['orders']} vs {rb['orders']}")
    if not quiet:
        print(detail)
    return differ, body["fingerprint"] if differ else None, detail
