"""xsim: deterministic simulation with fault injection for xgcm (see /verif/DESIGN.md)."""
