"""C07: conservative transform (engine A + numba stand-in); see eng_tr.py."""
from . import eng_tr
from .eng_tr import COMPONENTS, merge_stats, replay  # noqa: F401


class Engine(eng_tr.Engine):
    def __init__(self):
        super().__init__("C07")


RULE = (
    "Each run is one case of the conservative transform: column length n in 1-6 (thorough 1-8), 0-2 extra (column) "
    "dimensions of size 1-3, target_data profiles on the n+1 bounds drawn per column from a lattice of multiples of "
    "1/4 (random, monotone either way, plateaus; 3/4 of the columns inside the bin span), 1-5 strictly monotonic bins "
    "on multiples of 1/2 (40% decreasing), integer-valued data, and a poisoned allocator (the stand-in's output "
    "buffer pre-filled with NaN / +-1e300 / random garbage). 40% kernel level (interp_1d_conservative): the weight "
    "matrix W is read off by feeding the identity as an extra dimension; per column W must equal the overlap model "
    "(degenerate cells: total weight exactly 1 inside the span, only in bins containing the value), be non-negative, "
    "sum to 1 inside the span, equal the 1-D call on that column (column independence), out == W^T.phi, reversed bins "
    "reverse the output, merging two adjacent bins sums them. 60% through Grid.transform(method='conservative') with "
    "target_data on bounds or on centres (own interpolation to bounds as model), bins as ndarray or DataArray, random "
    "dim order, lower-dimensional target_data: every column must equal the kernel on that column and conserve; then "
    "the same call on dask-backed input chunked over the column dimensions by random compositions is computed under "
    "the real synchronous scheduler and 2 (thorough 5) simulated schedules with faults and must equal the eager "
    "result exactly. Non-trivial = more than one column and (kernel level or some column dimension has > 1 chunk). "
    "Distinct = digest of (level, n, column shape, bins, theta profiles, chunks, target position, bins form)."
)
ASSUMPTIONS = [
    "numba is absent: kernels run as CPython under a stand-in for numba.guvectorize; compiled-code effects are out of reach",
    "NaN target_data is not generated (the property does not speak about it)",
    "for a homogeneous cell (theta_min == theta_max) 'proportional to the overlap' is undefined; the model requires total weight 1 inside the span, placed only in bins whose closed interval contains the value",
    "exploration by seeded sampling, not exhaustive",
]
