"""Engine C / C16: metric-registry history machine.

World: one dataset with a pool of metric variables; every variable is a
constant field with its own prime value, so each get_metric read identifies
which registration it came from through the public API alone.

History: constructor ``metrics=`` entries followed by set_metrics calls.
Faults: refused registrations (occupied slot without overwrite, unknown
variable, unknown axis).  Oracle: a sequential registry model, evaluated after
every step, plus the regrouping check (same flattened registration sequence in
another batching must give identical reads).
"""

import copy
import itertools
import random
import warnings

import numpy as np
import xarray as xr

from . import core, worlds

PRIMES = [2, 3, 5, 7, 11, 13, 17, 19, 23, 29, 31, 37, 41, 43, 47, 53, 59, 61, 67, 71,
          73, 79, 83, 89, 97, 101, 103, 107, 109, 113, 127, 131, 137, 139, 149, 151]

XPOS = {"c": "xc", "l": "xg", "o": "xo"}
YPOS = {"c": "yc", "l": "yg", "o": "yo"}

GSPEC = {
    "axes": {
        "X": {"n": 4, "pos": {"center": "xc", "left": "xg", "outer": "xo"}},
        "Y": {"n": 3, "pos": {"center": "yc", "left": "yg", "outer": "yo"}},
    },
    "grid": {"periodic": False, "boundary": "fill"},
}


def pool():
    """name -> (axes tuple, dims tuple)"""
    p = {}
    for ab in "ab":
        for k, d in XPOS.items():
            p[f"x{ab}_{k}"] = (("X",), (d,))
        for k, d in YPOS.items():
            p[f"y{ab}_{k}"] = (("Y",), (d,))
    p["aa_cc"] = (("X", "Y"), ("xc", "yc"))
    p["ab_cc"] = (("X", "Y"), ("yc", "xc"))  # transposed on purpose
    p["aa_lc"] = (("X", "Y"), ("xg", "yc"))
    p["ab_lc"] = (("X", "Y"), ("xg", "yc"))
    p["aa_cl"] = (("X", "Y"), ("xc", "yg"))
    p["aa_ll"] = (("X", "Y"), ("xg", "yg"))
    p["ab_ll"] = (("X", "Y"), ("yg", "xg"))
    p["aa_oc"] = (("X", "Y"), ("xo", "yc"))
    return p


POOL = pool()
PRIME = {name: PRIMES[i] for i, name in enumerate(POOL)}
BYVAL = {v: k for k, v in PRIME.items()}


def build_world():
    gs = copy.deepcopy(GSPEC)
    gs["vars"] = {
        name: {"dims": list(dims), "data": {"gen": "const", "v": PRIME[name]}}
        for name, (axes, dims) in POOL.items()
    }
    ds = worlds.build_ds(gs)
    return gs, ds


# ------------------------------------------------------------------ model
class Model:
    """registry: frozenset(axes) -> ordered list of [dimsset, name]."""

    def __init__(self, reg=None):
        self.reg = reg if reg is not None else {}

    def clone(self):
        return Model({k: [list(e) for e in v] for k, v in self.reg.items()})

    def key(self):
        return tuple(
            sorted((tuple(sorted(k)), tuple(n for _, n in v)) for k, v in self.reg.items())
        )

    def would_refuse(self, axes, name, overwrite):
        ds = frozenset(POOL[name][1])
        for d, _ in self.reg.get(frozenset(axes), []):
            if d == ds and not overwrite:
                return True
        return False

    def apply_one(self, axes, name, overwrite):
        k = frozenset(axes)
        ds = frozenset(POOL[name][1])
        lst = self.reg.setdefault(k, [])
        for e in lst:
            if e[0] == ds:
                if not overwrite:
                    return False
                e[1] = name
                return True
        lst.append([ds, name])
        return True

    # expected read: returns ("exact", value) | ("oneof", set) | ("keyerror",)
    def expect(self, axes, xdim, ydim):
        k = frozenset(axes)
        want = set()
        if "X" in k:
            want.add(xdim)
        if "Y" in k:
            want.add(ydim)
        want = frozenset(want)
        if self.reg.get(k):
            for d, n in self.reg[k]:
                if d == want:
                    return ("exact", float(PRIME[n]))
            return ("oneof", {float(PRIME[n]) for _, n in self.reg[k]})
        if len(k) == 1:
            return ("keyerror",)
        bx, by = self.reg.get(frozenset(["X"])), self.reg.get(frozenset(["Y"]))
        if not bx or not by:
            return ("keyerror",)
        sx = [n for d, n in bx if d == frozenset([xdim])]
        sy = [n for d, n in by if d == frozenset([ydim])]
        if sx and sy:
            return ("exact", float(PRIME[sx[0]] * PRIME[sy[0]]))
        return ("oneof", {float(PRIME[a] * PRIME[b]) for _, a in bx for _, b in by})


QUERIES = (
    [(("X",), xk, "c") for xk in "clo"]
    + [(("Y",), "c", yk) for yk in "clo"]
    + [(("X", "Y"), xk, yk) for xk in "clo" for yk in "clo"]
    + [(("Y", "X"), "l", "c"), (("Y", "X"), "c", "o")]
)


class Reader:
    def __init__(self, ds):
        sizes = dict(ds.sizes)
        self.probes = {}
        for xk, xd in XPOS.items():
            for yk, yd in YPOS.items():
                self.probes[(xk, yk)] = xr.DataArray(
                    np.zeros((sizes[xd], sizes[yd])), dims=[xd, yd]
                )

    def read(self, grid, q):
        axes, xk, yk = q
        try:
            with warnings.catch_warnings():
                warnings.simplefilter("ignore")
                m = grid.get_metric(self.probes[(xk, yk)], axes)
            vals = np.unique(np.asarray(m.values, dtype="float64"))
            if vals.size == 1:
                return float(vals[0])
            return ["nonconst"] + [float(v) for v in vals[:4]]
        except KeyError:
            return "KeyError"
        except Exception as e:  # noqa
            return "EXC:" + type(e).__name__

    def read_all(self, grid):
        return [self.read(grid, q) for q in QUERIES]


def consistent(model, reads):
    """First query whose read contradicts the model, or None."""
    for q, r in zip(QUERIES, reads):
        axes, xk, yk = q
        exp = model.expect(axes, XPOS[xk], YPOS[yk])
        if exp[0] == "keyerror":
            # nothing registered that could serve this query: get_metric must refuse
            # (today with KeyError; the property does not fix the exception type)
            if not (r == "KeyError" or (isinstance(r, str) and r.startswith("EXC:"))):
                return (q, exp, r)
        elif exp[0] == "exact":
            if r != exp[1]:
                return (q, exp, r)
        else:
            if not (isinstance(r, float) and r in exp[1]):
                return (q, exp, r)
    return None


def describe(exp):
    if exp[0] == "exact":
        return f"exactly {name_of(exp[1])}"
    if exp[0] == "oneof":
        return "one of " + ",".join(sorted(name_of(v) for v in exp[1]))
    return "KeyError"


def name_of(v):
    if isinstance(v, float) and v == int(v):
        iv = int(v)
        if iv in BYVAL:
            return BYVAL[iv]
        for a in BYVAL:
            if iv % a == 0 and (iv // a) in BYVAL and a <= iv // a:
                return f"{BYVAL[a]}*{BYVAL[iv // a]}"
    return repr(v)


# -------------------------------------------------------------- generator
def key_form(rng, axes):
    axes = list(axes)
    if len(axes) == 1:
        f = rng.choice(["str", "tuple", "list"])
        return {"str": axes[0], "tuple": axes, "list": axes}[f], f
    if rng.random() < 0.5:
        axes = axes[::-1]
    f = rng.choice(["tuple", "list"])
    return axes, f


def gen_history(rng, tier, faulty):
    """Returns a history spec.  ``faulty`` histories inject refusals."""
    max_calls = 4 if tier == "quick" else 6
    model = Model()
    names_by_axes = {}
    for n, (axes, dims) in POOL.items():
        names_by_axes.setdefault(axes, []).append(n)
    # the history concentrates on 1-2 axis sets (as the property says) but
    # sometimes all three, so that partition products are exercised too
    sets = list(names_by_axes)
    rng.shuffle(sets)
    sets = sets[: rng.choice([1, 2, 2, 3])]

    def pick_vars(axes, k):
        """k variables of this axes set at pairwise different positions"""
        by_dims = {}
        for n in names_by_axes[axes]:
            by_dims.setdefault(frozenset(POOL[n][1]), []).append(n)
        slots = list(by_dims)
        rng.shuffle(slots)
        return [rng.choice(by_dims[s]) for s in slots[:k]]

    ctor = []
    if rng.random() < 0.6:
        for axes in sets:
            if rng.random() < 0.6:
                vs = pick_vars(axes, rng.choice([1, 1, 2, 3]))
                ok = all(not model.would_refuse(axes, v, False) for v in vs)
                if not ok:
                    continue
                key, form = key_form(rng, axes)
                if any(c["keyform"] == form and c["key"] == key for c in ctor):
                    continue
                for v in vs:
                    model.apply_one(axes, v, False)
                ctor.append(
                    {"key": key, "keyform": form, "value": vs,
                     "valueform": "list" if len(vs) > 1 or rng.random() < 0.5 else "str"}
                )
    ctor_conflict = False
    if faulty and ctor and rng.random() < 0.15:
        # refusal fault in the constructor: a second spelling of an axis set that is already listed ("X" next to
        # ("X",), ("X", "Y") next to ("Y", "X")) names a variable at an occupied position - the constructor
        # registers without overwrite, so it must refuse
        e = rng.choice(ctor)
        axes = list(_axes_of(e))
        if len(axes) == 1:
            key, form = (axes, "tuple") if e["keyform"] == "str" else (axes[0], "str")
        else:
            key, form = axes[::-1], "tuple"
        if not any(_ctor_key({"key": key, "keyform": form}) == _ctor_key(c) for c in ctor):
            taken = rng.choice(e["value"])
            twin = [n for n in names_by_axes[tuple(sorted(axes))] if frozenset(POOL[n][1]) == frozenset(POOL[taken][1])]
            free = [n for n in names_by_axes[tuple(sorted(axes))]
                    if not model.would_refuse(tuple(axes), n, False)]
            vs = ([rng.choice(free)] if free and rng.random() < 0.5 else []) + [rng.choice(twin)]
            ctor.append({"key": key, "keyform": form, "value": vs, "valueform": "list" if len(vs) > 1 or rng.random() < 0.5 else "str"})
            ctor_conflict = True
    calls = []
    ncalls = rng.randint(1, max_calls)
    nfault = 0
    for _ in range(ncalls):
        axes = rng.choice(sets)
        # bias towards axes sets that already have entries (existing-key branch)
        for _try in range(2):
            if frozenset(axes) in model.reg:
                break
            axes = rng.choice(sets)
        vs = pick_vars(axes, rng.choice([1, 1, 2, 2, 3]))
        occupied = [model.would_refuse(axes, v, False) for v in vs]
        key, form = key_form(rng, axes)
        call = {"key": key, "keyform": form, "value": vs,
                "valueform": "list" if len(vs) > 1 or rng.random() < 0.5 else "str"}
        fault = None
        if faulty and rng.random() < 0.45:
            kinds = ["unknown_var", "unknown_axis"]
            if any(occupied):
                kinds += ["occupied", "occupied", "occupied"]
            fault = rng.choice(kinds)
        if fault == "occupied":
            call["overwrite"] = False
        elif fault == "unknown_var":
            call["overwrite"] = rng.random() < 0.5
            pos = rng.randrange(len(vs) + 1)
            call["value"] = vs[:pos] + ["no_such_metric"] + vs[pos:]
            call["valueform"] = "list"
        elif fault == "unknown_axis":
            call["overwrite"] = rng.random() < 0.5
            call["key"] = (call["key"] if isinstance(call["key"], list) else [call["key"]]) + ["Q"]
            call["keyform"] = "tuple"
        else:
            call["overwrite"] = True if any(occupied) else (rng.random() < 0.3)
        call["fault"] = fault
        if fault:
            nfault += 1
        # advance the generator's model (strict one-at-a-time reading; only
        # used to steer generation, the checker has its own candidate set)
        if fault in (None, "occupied"):
            for v in vs:
                if not model.apply_one(axes, v, call["overwrite"]):
                    break
        calls.append(call)
    h = {"ctor": ctor, "calls": calls, "faulty": bool(faulty)}
    if ctor_conflict:
        h["ctor_conflict"] = True
    return h


def _ctor_key(c):
    """the key under which a constructor entry is listed in the metrics= mapping"""
    return _key_obj(c) if c["keyform"] != "list" else tuple(c["key"])


def shape_of(h, outcomes):
    def cs(c):
        return (
            ",".join(sorted(c["key"] if isinstance(c["key"], list) else [c["key"]])),
            c["keyform"],
            len(c["value"]),
            tuple(POOL[v][1] if v in POOL else ("?",) for v in c["value"]),
            c.get("overwrite"),
            c.get("fault"),
        )

    return core.digest([[cs(c) for c in h["ctor"]], [cs(c) for c in h["calls"]], outcomes], 12)


# --------------------------------------------------------------- executor
def _key_obj(c):
    if c["keyform"] == "str":
        return c["key"] if isinstance(c["key"], str) else c["key"][0]
    if c["keyform"] == "tuple":
        return tuple(c["key"]) if not isinstance(c["key"], str) else (c["key"],)
    return list(c["key"]) if not isinstance(c["key"], str) else [c["key"]]


def _val_obj(c):
    if c["valueform"] == "str" and len(c["value"]) == 1:
        return c["value"][0]
    return list(c["value"])


def _axes_of(c):
    return tuple(c["key"]) if not isinstance(c["key"], str) else (c["key"],)


class Counters:
    def __init__(self):
        self.c = {
            "histories": 0, "faulty_histories": 0, "calls": 0, "reads": 0,
            "refusal_occupied_fired": 0, "refusal_unknown_var_fired": 0,
            "refusal_unknown_axis_fired": 0, "existing_key_branch": 0,
            "overwrite_replaced": 0, "multi_var_calls": 0, "regroupings": 0,
            "refused_batches_with_registered_prefix": 0,
        }
        self.states = set()

    def inc(self, k, n=1):
        self.c[k] = self.c.get(k, 0) + n


def execute(h, reader_ds=None, counters=None, check_regroup=True):
    """Run history ``h`` against real xgcm and the model.
    Returns (violation or None, outcomes list, final reads)."""
    import xgcm

    cnt = counters or Counters()
    gs, ds = reader_ds if reader_ds else build_world()
    rd = Reader(ds)
    kw = worlds.grid_kwargs(gs)
    ctor = {}
    for c in h["ctor"]:
        ctor[_ctor_key(c)] = _val_obj(c)
    # constructor entries are registrations without overwrite, in listing order
    pre, conflict = Model(), False
    for c in h["ctor"]:
        for v in c["value"]:
            if not conflict and not pre.apply_one(_axes_of(c), v, False):
                conflict = True
    with warnings.catch_warnings():
        warnings.simplefilter("ignore")
        try:
            grid = xgcm.Grid(ds, metrics=ctor if ctor else None, **kw)
        except Exception as e:
            if conflict:
                cnt.inc("refusal_ctor_occupied_fired")
                return (None, ["ctor-refused"], None)
            return (
                {"fingerprint": f"C16/ctor-raised/{type(e).__name__}",
                 "detail": f"constructor with conflict-free metrics raised {type(e).__name__}: {e}"},
                ["ctor-exc"], None)
    if conflict:
        return ({"fingerprint": "C16/refusal-missing/ctor",
                 "detail": f"constructor entries {h['ctor']} register a variable into an occupied slot (two spellings of "
                           f"one axis set) without overwrite; the constructor accepted them instead of refusing"},
                ["ctor-ok"], None)
    cands = [Model()]
    for c in h["ctor"]:
        for v in c["value"]:
            cands[0].apply_one(_axes_of(c), v, False)
    outcomes = []
    reads = rd.read_all(grid)
    cnt.inc("reads", len(reads))
    bad = consistent(cands[0], reads)
    if bad:
        return (_viol("after-ctor", bad, None), outcomes, reads)
    cnt.states.add(cands[0].key())
    for si, c in enumerate(h["calls"]):
        cnt.inc("calls")
        if len(c["value"]) > 1:
            cnt.inc("multi_var_calls")
        axes = _axes_of(c)
        reads_before = reads
        exc = None
        with warnings.catch_warnings():
            warnings.simplefilter("ignore")
            try:
                grid.set_metrics(_key_obj(c), _val_obj(c), overwrite=c["overwrite"])
            except Exception as e:  # noqa
                exc = e
        # ---- model transition over the candidate set
        known_axes = all(a in ("X", "Y") for a in axes)
        known_vars = all(v in POOL for v in c["value"])
        new_cands = []
        expect_refusal = None
        if not known_axes:
            expect_refusal = "unknown_axis"
        elif not known_vars:
            expect_refusal = "unknown_var"
        if expect_refusal:
            new_cands = cands  # nothing may change
            must_raise = True
        else:
            must_raise = None
            for m in cands:
                m1 = m.clone()
                refused_at = None
                for j, v in enumerate(c["value"]):
                    if frozenset(axes) in m1.reg:
                        pass
                    if not m1.apply_one(axes, v, c["overwrite"]):
                        refused_at = j
                        break
                if refused_at is None:
                    new_cands.append(("ok", m1))
                else:
                    # the property says a batch is equivalent to registering one at a
                    # time in the same order: the variables before the refused one are
                    # registered, the refused slot and everything after it are untouched
                    new_cands.append(("refuse", m1))
                    if refused_at > 0:
                        cnt.inc("refused_batches_with_registered_prefix")
            kinds = {k for k, _ in new_cands}
            if exc is None:
                new_cands = [m for k, m in new_cands if k == "ok"]
                if not new_cands:
                    must_raise = True
            else:
                new_cands = [m for k, m in new_cands if k == "refuse"]
                if not new_cands:
                    must_raise = False
            if kinds == {"refuse"}:
                expect_refusal = "occupied"
        if frozenset(axes) in cands[0].reg and known_axes:
            cnt.inc("existing_key_branch")
        outcomes.append("raise" if exc is not None else "ok")
        if must_raise is True and exc is None:
            return ({"fingerprint": f"C16/refusal-missing/{expect_refusal}",
                     "detail": f"step {si}: {c} should have been refused ({expect_refusal}) but returned"},
                    outcomes, reads)
        if must_raise is False and exc is not None:
            return ({"fingerprint": f"C16/unexpected-refusal/{type(exc).__name__}",
                     "detail": f"step {si}: {c} raised {type(exc).__name__}: {exc} although every slot was free or overwrite=True"},
                    outcomes, reads)
        if exc is not None and expect_refusal:
            cnt.inc(f"refusal_{expect_refusal}_fired")
        reads = rd.read_all(grid)
        cnt.inc("reads", len(reads))
        alive = []
        first_bad = None
        for m in new_cands:
            bad = consistent(m, reads)
            if bad is None:
                alive.append(m)
            elif first_bad is None:
                first_bad = bad
        if not alive:
            where = "after-refused-call" if exc is not None else "after-call"
            return (_viol(where, first_bad, c, si), outcomes, reads)
        # de-duplicate candidates
        seen, cands = set(), []
        for m in alive:
            if m.key() not in seen:
                seen.add(m.key())
                cands.append(m)
                cnt.states.add(m.key())
        if exc is None and c["overwrite"]:
            cnt.inc("overwrite_replaced")
    return (None, outcomes, reads)


def _viol(where, bad, call, si=None):
    q, exp, r = bad
    kind = exp[0]
    got = name_of(r) if isinstance(r, float) else str(r)
    nv = len(call["value"]) if call else 0
    fp = f"C16/read-mismatch/{where}/{kind}/{'multi' if nv > 1 else 'single'}"
    return {
        "fingerprint": fp,
        "detail": f"{where} (step {si}, call {call}): get_metric(axes={list(q[0])}, probe at X:{q[1]},Y:{q[2]}) "
                  f"returned {got}; the registry model expects {describe(exp)}",
    }


# ---------------------------------------------------------- regrouping
def flatten(h):
    seq = []
    for c in h["ctor"]:
        for v in c["value"]:
            seq.append((tuple(_axes_of(c)), v, False))
    for c in h["calls"]:
        for v in c["value"]:
            seq.append((tuple(_axes_of(c)), v, bool(c["overwrite"])))
    return seq


def regroup(rng, seq, mode):
    """Another history with the same flattened registration sequence."""
    groups = []
    for axes, v, ow in seq:
        if (
            mode == "random"
            and groups
            and groups[-1]["axes"] == frozenset(axes)
            and groups[-1]["ow"] == ow
            and len(groups[-1]["value"]) < 3
            and frozenset(POOL[v][1]) not in {frozenset(POOL[u][1]) for u in groups[-1]["value"]}
            and rng.random() < 0.6
        ):
            groups[-1]["value"].append(v)
        else:
            groups.append({"axes": frozenset(axes), "key": list(axes), "value": [v], "ow": ow})
    calls = []
    for g in groups:
        key, form = key_form(rng, g["key"])
        calls.append({"key": key, "keyform": form, "value": g["value"],
                      "valueform": "list" if len(g["value"]) > 1 or rng.random() < 0.5 else "str",
                      "overwrite": g["ow"], "fault": None})
    # move a random conflict-free prefix of overwrite=False calls into the constructor
    ctor = []
    if mode == "random":
        m = Model()
        while calls and not calls[0]["overwrite"] and rng.random() < 0.6:
            c = calls[0]
            if any(m.would_refuse(_axes_of(c), v, False) for v in c["value"]):
                break
            if any(x["keyform"] == c["keyform"] and x["key"] == c["key"] for x in ctor) or c["keyform"] == "list":
                break
            for v in c["value"]:
                m.apply_one(_axes_of(c), v, False)
            ctor.append(calls.pop(0))
    return {"ctor": ctor, "calls": calls, "faulty": False}


def run_case(spec, counters=None, world=None):
    """Execute one case spec {history, regroupings:[...]}.  Returns violation or None."""
    h = spec["history"]
    v, outcomes, reads = execute(h, world, counters)
    if v:
        return v, outcomes
    for alt in spec.get("regroupings", []):
        if counters:
            counters.inc("regroupings")
        v2, _, reads2 = execute(alt, world, None)
        if v2:
            v2 = dict(v2)
            v2["fingerprint"] += "/in-regrouping"
            v2["detail"] += f"  [in regrouping {alt}]"
            return v2, outcomes
        if reads2 != reads:
            idx = [i for i, (a, b) in enumerate(zip(reads, reads2)) if a != b][0]
            q = QUERIES[idx]
            return ({"fingerprint": "C16/final-registry-differs" if alt.get("direct") else "C16/regroup-differs",
                     "detail": ("same final registry, registered directly: " if alt.get("direct") else
                                "same registration sequence, different batching: ") + f"get_metric(axes={list(q[0])}, X:{q[1]},Y:{q[2]}) "
                               f"= {name_of(reads[idx]) if isinstance(reads[idx], float) else reads[idx]} vs "
                               f"{name_of(reads2[idx]) if isinstance(reads2[idx], float) else reads2[idx]}; regrouped history: {alt}"},
                    outcomes)
    return None, outcomes


def make_case(seed_i, tier):
    rng = core.stream(seed_i, "workload")
    faulty = core.stream(seed_i, "faults").random() < 0.5
    h = gen_history(rng, tier, faulty)
    spec = {"history": h, "regroupings": []}
    if not faulty:
        seq = flatten(h)
        rg = core.stream(seed_i, "regroup")
        spec["regroupings"] = [regroup(rg, seq, "random"), regroup(rg, seq, "single")]
        # "what get_metric returns depends only on that final registry": a third history registers the final
        # registry directly - per axis set one call listing the slot holders in slot order, no overwrites
        m = Model()
        for axes, v, ow in seq:
            m.apply_one(axes, v, ow)
        direct = [{"key": sorted(k), "keyform": "tuple", "value": [n for _, n in lst], "valueform": "list",
                   "overwrite": False, "fault": None} for k, lst in m.reg.items() if lst]
        if direct and any(ow for _, _, ow in seq):
            spec["regroupings"].append({"ctor": [], "calls": direct, "faulty": False, "direct": True})
    return spec


# ------------------------------------------------------------ minimisation
def minimise(spec, fingerprint, world):
    budget = [150]

    def test(s):
        v, _ = run_case(s, None, world)
        return bool(v) and v["fingerprint"] == fingerprint

    s = copy.deepcopy(spec)

    def cands(s):
        # drop regroupings
        for i in range(len(s.get("regroupings", []))):
            t = copy.deepcopy(s)
            del t["regroupings"][i]
            yield t
        h = s["history"]
        for part in ("calls", "ctor"):
            for i in range(len(h[part])):
                t = copy.deepcopy(s)
                del t["history"][part][i]
                if t["regroupings"]:
                    t["regroupings"] = _rebuild_regroupings(t)
                yield t
        for part in ("calls", "ctor"):
            for i, c in enumerate(h[part]):
                if len(c["value"]) > 1:
                    for j in range(len(c["value"])):
                        t = copy.deepcopy(s)
                        del t["history"][part][i]["value"][j]
                        if t["regroupings"]:
                            t["regroupings"] = _rebuild_regroupings(t)
                        yield t

    s = core.greedy(s, cands, test, budget)
    return s, 150 - budget[0]


def _rebuild_regroupings(t):
    rg = random.Random(0)
    seq = flatten(t["history"])
    return [regroup(rg, seq, "single")]


# ------------------------------------------------------------------ engine
class Engine:
    prop = "C16"

    def __init__(self):
        self.cnt = Counters()
        self.world = build_world()
        self.nsamples = 0

    def run(self, i, seed_i, tier):
        spec = make_case(seed_i, tier)
        self.cnt.inc("histories")
        if spec["history"]["faulty"]:
            self.cnt.inc("faulty_histories")
        v, outcomes = run_case(spec, self.cnt, self.world)
        h = spec["history"]
        touched = [frozenset(_axes_of(c)) for c in h["ctor"] + h["calls"]]
        nontrivial = len(touched) != len(set(touched))
        rec = {
            "d": core.digest([spec, outcomes, v["fingerprint"] if v else None]),
            "nt": nontrivial,
            "shape": shape_of(h, outcomes),
            "viol": None,
        }
        if v:
            mspec, used = minimise(spec, v["fingerprint"], self.world)
            v2, _ = run_case(mspec, None, self.world)
            rec["viol"] = {"fingerprint": v["fingerprint"], "spec": mspec,
                           "detail": (v2 or v)["detail"], "min_steps": used,
                           "original_spec": spec}
        if self.nsamples < 2 and i % 7 == 0:
            self.nsamples += 1
            rec["sample"] = {"history": h, "outcomes": outcomes,
                             "n_regroupings": len(spec["regroupings"])}
        return rec

    def stats(self):
        d = dict(self.cnt.c)
        d["distinct_model_states"] = sorted(core.digest(s, 10) for s in self.cnt.states)
        return d


def replay(spec):
    v, outcomes = run_case(spec, None, build_world())
    return v


merge_stats = core.merge_stats

RULE = (
    "Each run is one seeded history over a pool of 20 metric variables (constant fields, one prime each) "
    "for the axis sets {X}, {Y}, {X,Y}: constructor metrics= entries plus 1-4 (thorough: 1-6) set_metrics "
    "calls naming 1-3 variables at pairwise different positions, key spelled as str/tuple/list, overwrite "
    "True/False; half of the histories inject refusals (occupied slot without overwrite, unknown variable, "
    "unknown axis). After the constructor and after every call all 17 get_metric queries (every position "
    "combination of every axis set) are evaluated against a sequential slot model; fault-free histories are "
    "additionally re-executed under two other batchings of the same flattened registration sequence "
    "(random regrouping incl. moving calls into the constructor, and fully one-at-a-time) and all reads must "
    "agree. Non-trivial = the history registers for some axis set at least twice (the existing-key branch "
    "runs). Distinct = digest of the sequence of (axes set, key form, number and positions of variables, "
    "overwrite, fault kind) plus per-call outcomes."
)

COMPONENTS = {
    "real": ["xgcm.Grid constructor, set_metrics, get_metric, interp_like/interp (all of xgcm)", "xarray", "numpy"],
    "stub": [],
    "model": ["sequential slot registry (xsim/eng_c16.py: Model)"],
}

ASSUMPTIONS = [
    "get_metric is observed only through values: every pool variable is a constant field with its own prime, so the returned constant (or product of two) identifies the registration(s) it came from; nearest-value interpolation of a constant is that constant exactly",
    "a refused multi-variable call is modelled exactly as the property states (equivalent to one-at-a-time registration in the same order): the variables listed before the refused one are registered, the refused slot and the variables after it are untouched. An earlier version of the model also accepted an all-or-nothing batch; a seeded change (seeded/C16-b) showed that this relaxation hid a real violation of the stated equivalence, so it was removed",
    "reads at an empty slot only require 'some variable registered for exactly that axis set' (C10 leaves the choice open); partition products are exact only when every factor's slot at the probe position is registered",
    "exploration by seeded sampling, not exhaustive",
]
