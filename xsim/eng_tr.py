"""Engine A + numba stand-in for the vertical transforms (C07 conservative,
C08 linear/log).

Simulated clauses (decided by the simulator): column independence under every
chunking of the non-axis dimensions, every simulated dask schedule and fault
set (engine A), and every content of the freshly allocated kernel output
buffer (S5: the stand-in fills it with seeded garbage).  The per-column
numerical clauses are checked by independent reference models on every
simulated execution.
"""

import copy
import math
import warnings

import numpy as np
import xarray as xr

from . import core, worlds
from .dasksim import POLICIES, DeterministicUUID, SimScheduler
from .eng_c06 import _with_watch, gen_schedules


# ------------------------------------------------------------------ poison
def install_poison(kind, seed):
    import numba

    rng = np.random.default_rng(seed)

    def poison(shape, dtype):
        if kind == "nan":
            out = np.full(shape, np.nan, dtype=dtype)
        elif kind == "big":
            out = np.full(shape, 1e300 if np.dtype(dtype) == np.float64 else 1e30, dtype=dtype)
        elif kind == "negbig":
            out = np.full(shape, -1e300 if np.dtype(dtype) == np.float64 else -1e30, dtype=dtype)
        else:
            out = (rng.standard_normal(size=shape) * 1e6).astype(dtype)
        return out

    numba.POISON = poison
    return numba


POISON_KINDS = ["nan", "big", "negbig", "random"]


# ------------------------------------------------------------------ models
def model_conservative(theta, bins):
    """Overlap weights W[i, j] of cell i (bounds theta[i], theta[i+1]) into bin j;
    rows of degenerate cells (theta[i] == theta[i+1]) are returned as None."""
    theta = [float(t) for t in theta]
    b = [float(x) for x in bins]
    inc = b[1] > b[0]
    if not inc:
        b = b[::-1]
    n, m = len(theta) - 1, len(b) - 1
    W = []
    for i in range(n):
        lo, hi = min(theta[i], theta[i + 1]), max(theta[i], theta[i + 1])
        if hi == lo:
            W.append(None)
            continue
        row = []
        for j in range(m):
            ov = min(hi, b[j + 1]) - max(lo, b[j])
            row.append(max(ov, 0.0) / (hi - lo))
        W.append(row if inc else row[::-1])
    return W


def model_linear(levels, theta, phi, mask_edges, log=False):
    """Piecewise-linear interpolant by segment search (no np.interp)."""
    th = [float(t) for t in theta]
    ph = [float(p) for p in phi]
    lv = [float(x) for x in levels]
    if log:
        th = [math.log(t) for t in th]
        # (a level <= 0 has no logarithm: it lies outside the range of any positive target_data)
        lv = [math.log(x) if x > 0 else -math.inf for x in lv]
    if th[-1] < th[0]:
        th, ph = th[::-1], ph[::-1]
    out = []
    for x in lv:
        if x < th[0]:
            out.append(float("nan") if mask_edges else ph[0])
        elif x > th[-1]:
            out.append(float("nan") if mask_edges else ph[-1])
        else:
            val = None
            for k in range(len(th) - 1):
                if th[k] <= x <= th[k + 1]:
                    if x == th[k + 1]:
                        val = ph[k + 1]
                    elif x == th[k]:
                        val = ph[k]
                    else:
                        w = (x - th[k]) / (th[k + 1] - th[k])
                        val = ph[k] + w * (ph[k + 1] - ph[k])
                    break
            out.append(val)
    return out


def close(a, b, tol=1e-12):
    if a is None or b is None:
        return a is b
    if isinstance(a, float) and math.isnan(a):
        return isinstance(b, float) and math.isnan(b)
    if isinstance(b, float) and math.isnan(b):
        return False
    return abs(a - b) <= tol * max(1.0, abs(a), abs(b))


# ------------------------------------------------------------- generators
def lattice(rng, lo, hi, step):
    k = rng.randint(int(lo / step), int(hi / step))
    return k * step


def gen_bins(rng, m, lo=0.0, hi=6.0, step=0.5, decreasing=None):
    pts = sorted(rng.sample(range(int(lo / step), int(hi / step) + 1), m + 1))
    b = [p * step for p in pts]
    if decreasing is None:
        decreasing = rng.random() < 0.4
    return b[::-1] if decreasing else b


def gen_theta_profile(rng, n, lo, hi, step=0.25):
    """theta on n+1 bounds from a small lattice: repeated values, non-monotonic
    profiles and values exactly on bin edges are frequent."""
    mode = rng.choice(["random", "random", "monotone", "plateaus", "inside"])
    if mode == "monotone":
        vals = sorted(lattice(rng, lo, hi, step) for _ in range(n + 1))
        if rng.random() < 0.5:
            vals = vals[::-1]
    elif mode == "plateaus":
        vals, cur = [], lattice(rng, lo, hi, step)
        for _ in range(n + 1):
            if rng.random() < 0.5:
                cur = lattice(rng, lo, hi, step)
            vals.append(cur)
    else:
        vals = [lattice(rng, lo, hi, step) for _ in range(n + 1)]
    return vals


def gen_c07(rng, tier):
    big = tier == "thorough"
    n = rng.randint(1, 8 if big else 6)
    m = rng.randint(1, 5)
    ncoldims = rng.choice([0, 1, 1, 2, 2])
    cols = [rng.randint(1, 3) for _ in range(ncoldims)]
    bins = gen_bins(rng, m)
    blo, bhi = min(bins), max(bins)
    ncol = int(np.prod(cols)) if cols else 1
    theta = []
    for _ in range(ncol):
        if rng.random() < 0.75:
            theta.append(gen_theta_profile(rng, n, blo, bhi))  # inside the span
        else:
            theta.append(gen_theta_profile(rng, n, max(0.0, blo - 1.0), bhi + 1.0))
    for col in theta:
        if rng.random() < 0.15:
            # a thin (but not degenerate) cell at a bin edge: bounds e - a*2^-p and e + b*2^-p (dyadic, so the
            # overlap fractions stay exact); a == 0 puts one bound on the edge, a > 0 makes the cell straddle it
            k = rng.randrange(n)
            e = rng.choice(bins)
            d = 2.0 ** -rng.choice([10, 16, 20, 24, 27, 30, 34, 40])
            a, b = rng.randint(0, 3), rng.randint(1, 3)
            pair = [e - a * d, e + b * d]
            if rng.random() < 0.5:
                pair.reverse()
            col[k], col[k + 1] = pair
    td_int = rng.random() < 0.1
    if td_int:
        # integer-typed target_data (e.g. an index-like or undecoded coordinate): whole-number
        # profiles against bin edges that are not whole numbers
        theta = [[float(round(t)) for t in col] for col in theta]
    spec = {"prop": "C07", "n": n, "cols": cols, "bins": bins, "theta": theta, "td_int": td_int,
            "phi_seed": rng.randrange(10**6), "poison": [rng.choice(POISON_KINDS), rng.randrange(10**6)]}
    if rng.random() < 0.4:
        spec["level"] = "kernel"
        spec["merge_at"] = rng.randint(1, m - 1) if m >= 2 else None
        # one profile shared by all columns, passed as a 1-D array (broadcast by the kernel)
        spec["shared_theta"] = bool(cols) and rng.random() < 0.2
        if spec["shared_theta"]:
            spec["theta"] = [theta[0]] * ncol
    else:
        spec["level"] = "grid"
        spec["target_on"] = rng.choice(["outer", "outer", "center"])
        spec["bins_as"] = rng.choice(["np", "da"])
        spec["td_lower_dim"] = bool(cols) and rng.random() < 0.2
        spec["dim_order_seed"] = rng.randrange(10**6)
        spec["chunks"] = [list(worlds.compositions(rng, c)) for c in cols]
        spec["td_lazy"] = rng.random() < 0.6
        spec["schedules"] = gen_schedules(rng, tier, n=3 if tier == "quick" else 6)
        spec["boundary"] = rng.choice(["fill", "extend"])
        spec["td_name"] = rng.choice([None, "theta"])
        spec["float32"] = rng.random() < 0.1
        spec["int_data"] = (not spec["float32"]) and rng.random() < 0.1
        if rng.random() < 0.1:
            # target_data=None: xgcm uses the axis' own outer coordinate (a 1-D profile)
            spec["td_none"] = True
            spec["bins_as"] = "da"
            spec["target_on"] = "outer"
            spec["td_lower_dim"] = False
            spec["theta"] = [[float(k) for k in range(n + 1)]] * ncol
    return spec


def gen_c08(rng, tier):
    big = tier == "thorough"
    n = rng.randint(2, 8 if big else 6)
    ncoldims = rng.choice([0, 1, 1, 2, 2])
    cols = [rng.randint(1, 3) for _ in range(ncoldims)]
    ncol = int(np.prod(cols)) if cols else 1
    method = rng.choice(["linear", "linear", "log"])
    bypass = rng.random() < 0.15
    theta = []
    for _ in range(ncol):
        start = rng.randint(1, 8) * 0.5
        incs = [rng.randint(1, 4) * 0.25 for _ in range(n - 1)]
        vals = [start]
        for d in incs:
            vals.append(vals[-1] + d)
        if not bypass and rng.random() < 0.45:
            vals = vals[::-1]
        theta.append(vals)
    m = rng.randint(1, 6)

    def gen_levels(col_theta):
        lv = []
        lo, hi = min(col_theta), max(col_theta)
        for _ in range(m):
            r = rng.random()
            if r < 0.2:
                lv.append(rng.choice([lo, hi]))
            elif r < 0.35:
                lv.append(rng.choice(col_theta))
            elif r < 0.5:
                lv.append(rng.choice([lo - 0.5, hi + 0.75, max(0.125, lo - 0.25)]))
            elif r < 0.62:
                # just outside / just inside the range (relative 1e-9): masking is a strict comparison
                lv.append(rng.choice([hi * (1 + 1e-9), lo * (1 - 1e-9), hi * (1 - 1e-9), lo * (1 + 1e-9)]))
            else:
                lv.append(rng.randint(int(lo * 8), int(hi * 8)) / 8.0)
        lv = [max(x, 0.125) for x in lv]
        # distinct levels keep the target coordinate unambiguous
        seen, out = set(), []
        for x in lv:
            while x in seen:
                x = x + 0.0625
            seen.add(x)
            out.append(x)
        if rng.random() < 0.3:
            out.sort()
        return out

    spec = {"prop": "C08", "n": n, "cols": cols, "theta": theta, "method": method,
            "mask_edges": rng.random() < 0.6, "bypass_checks": bypass,
            "phi_seed": rng.randrange(10**6), "poison": [rng.choice(POISON_KINDS), rng.randrange(10**6)]}
    allth = [t for c in theta for t in c]
    if rng.random() < 0.35:
        spec["level"] = "kernel"
        spec["levels"] = gen_levels(allth)
    else:
        spec["level"] = "grid"
        nd_target = bool(cols) and rng.random() < 0.3
        if nd_target:
            spec["target"] = {"kind": "nd", "levels": [gen_levels(c) for c in theta],
                              "name": rng.choice(["sigma", None]), "dim": "lev"}
        else:
            kind = rng.choice(["np", "da", "da"])
            spec["target"] = {"kind": kind, "levels": gen_levels(allth), "name": rng.choice(["sigma", "rho"]),
                              "dim": rng.choice(["lev", "sigma"])}
        spec["td_name"] = rng.choice([None, "theta", "dens"])
        spec["da_name"] = rng.choice(["q", "salt", None])
        spec["suffix"] = rng.choice([None, None, "_foo", "", "a"])
        if spec["da_name"] and rng.random() < 0.25:
            # an input whose name already ends with the suffix (e.g. a chained transform)
            eff = "_transformed" if spec["suffix"] is None else spec["suffix"]
            spec["da_name"] = spec["da_name"] + eff
        spec["dim_order_seed"] = rng.randrange(10**6)
        spec["chunks"] = [list(worlds.compositions(rng, c)) for c in cols]
        spec["td_lazy"] = rng.random() < 0.6
        spec["td_lower_dim"] = bool(cols) and not nd_target and rng.random() < 0.15
        spec["schedules"] = gen_schedules(rng, tier, n=3 if tier == "quick" else 6)
        spec["z_pos"] = rng.choice(["center", "center", "outer"])
        spec["float32"] = rng.random() < 0.1
        # integer-typed data (counts, undecoded model output): the interpolant is still real-valued
        spec["int_data"] = (not spec["float32"]) and rng.random() < 0.12
        spec["da_coords"] = rng.random() < 0.6
        if (method == "linear" and not spec["float32"] and not spec["int_data"] and rng.random() < 0.1):
            # single-precision data against finely structured double-precision target_data (sigma = 1027.0000x):
            # theta and levels become 1024 + v * 2^-14 - dyadic, so still exact in float64, but their differences
            # lie below the float32 resolution at 1024 (2^-13); only the data are float32
            def fine(v):
                return [fine(x) for x in v] if isinstance(v, list) else 1024.0 + float(v) / 16384.0

            spec["fine_f32"] = True
            spec["theta"] = fine(spec["theta"])
            spec["target"]["levels"] = fine(spec["target"]["levels"])
        if method == "linear" and not nd_target and not spec.get("fine_f32") and rng.random() < 0.12:
            # target_data=None: the grid's own coordinate along the axis is the target data
            spec["td_none"] = True
            spec["td_lower_dim"] = False
            off = 0.5 if spec["z_pos"] != "outer" else 0.0
            spec["theta"] = [[k + off for k in range(n)]] * ncol
    return spec


# ---------------------------------------------------------------- helpers
def _cols_iter(cols):
    return list(np.ndindex(*cols)) if cols else [()]


def _theta_array(spec, length):
    cols = spec["cols"]
    arr = np.array(spec["theta"], dtype="float64").reshape(tuple(cols) + (length,))
    return arr


def _phi_array(spec, n, positive=False):
    rng = np.random.default_rng(spec["phi_seed"])
    a = rng.integers(0 if positive else -20, 21, size=tuple(spec["cols"]) + (n,)).astype("float64")
    return a


def V(prop, check, level, feat, detail, sched=None):
    return {"fingerprint": f"{prop}/{check}/{level}/{feat}", "detail": detail, "schedule": sched}


def c07_features(spec):
    f = []
    bins = spec["bins"]
    if bins[1] < bins[0]:
        f.append("decreasing-bins")
    if (int(np.prod(spec["cols"])) if spec["cols"] else 1) > 1:
        f.append("multi-column")
    interior = set(bins[1:-1])
    for col in spec["theta"]:
        for a, b in zip(col[:-1], col[1:]):
            if a == b and a in interior:
                f.append("degenerate-cell-on-interior-edge")
                break
    return "+".join(sorted(set(f))) or "plain"


class TrCounters:
    def __init__(self):
        self.c = {"cases": 0, "kernel_cases": 0, "grid_cases": 0, "columns_checked": 0, "computes": 0,
                  "tasks_executed": 0, "choice_points": 0, "degenerate_cells": 0, "cells_on_bin_edge": 0,
                  "columns_inside_span": 0, "poisoned_elements": 0, "kernel_calls": 0, "multi_chunk_cases": 0,
                  "masked_levels": 0, "levels_at_end_values": 0, "decreasing_columns": 0, "eager_refused": 0,
                  "scaled_calls": 0, "shared_computes": 0}
        self.fired = {}
        self.orders = set()
        self.graph_shapes = set()
        self.poison_kinds = {}


# ------------------------------------------------------------------- C07
def run_c07(spec, cnt):
    from xgcm import transform as T

    n = spec["n"]
    cols = spec["cols"]
    bins = np.array(spec["bins"], dtype="float64")
    theta = _theta_array(spec, n + 1)
    phi = _phi_array(spec, n)
    feat = c07_features(spec)
    blo, bhi = float(bins.min()), float(bins.max())
    m = len(bins) - 1
    interior = set(spec["bins"][1:-1])
    if spec["level"] == "kernel":
        cnt.c["kernel_cases"] += 1
        eye = np.eye(n).reshape((n,) + (1,) * len(cols) + (n,))
        theta_arg = theta[(0,) * len(cols)] if spec.get("shared_theta") else theta
        if spec.get("td_int"):
            theta_arg = theta_arg.astype("int64")
        Wnd = T.interp_1d_conservative(np.broadcast_to(eye, (n,) + tuple(cols) + (n,)).copy(), theta_arg, bins)
        out = T.interp_1d_conservative(phi, theta_arg, bins)
        if Wnd.shape != (n,) + tuple(cols) + (m,) or out.shape != tuple(cols) + (m,):
            return V("C07", "shape", "kernel", feat, f"output shapes {Wnd.shape}, {out.shape} for n={n}, cols={cols}, m={m}")
        for ci, c in enumerate(_cols_iter(cols)):
            cnt.c["columns_checked"] += 1
            th = theta[c]
            Wm = model_conservative(th, bins)
            W1 = T.interp_1d_conservative(np.eye(n), np.broadcast_to(th, (n, n + 1)).copy(), bins)  # (n, m)
            Wc = Wnd[(slice(None),) + c + (slice(None),)]
            if not np.array_equal(W1, Wc, equal_nan=True):
                return V("C07", "column-independence", "kernel", feat,
                         f"column {c} of the N-D call differs from the 1-D call on that column: theta={list(th)}, bins={list(bins)}: N-D {Wc.tolist()} vs 1-D {W1.tolist()}")
            inside = bool(th.min() >= blo and th.max() <= bhi)
            if inside:
                cnt.c["columns_inside_span"] += 1
            for i in range(n):
                row = [float(x) for x in Wc[i]]
                if any((x < 0) or math.isnan(x) for x in row):
                    return V("C07", "negative-or-nan-weight", "kernel", feat,
                             f"cell {i} (theta {th[i]}..{th[i+1]}) gets weights {row} for bins {list(bins)}")
                lo, hi = min(th[i], th[i + 1]), max(th[i], th[i + 1])
                if lo in interior or hi in interior:
                    cnt.c["cells_on_bin_edge"] += 1
                if Wm[i] is None:
                    cnt.c["degenerate_cells"] += 1
                    val = float(th[i])
                    want = 1.0 if blo <= val <= bhi else 0.0
                    b = list(bins)
                    for j in range(m):
                        lo_j, hi_j = min(b[j], b[j + 1]), max(b[j], b[j + 1])
                        if row[j] != 0 and not (lo_j <= val <= hi_j):
                            return V("C07", "weights", "kernel", feat,
                                     f"homogeneous cell theta={val} contributes {row[j]} to bin [{b[j]},{b[j+1]}] which does not contain it")
                    if not close(sum(row), want):
                        return V("C07", "conservation", "kernel", feat,
                                 f"homogeneous cell with theta={val} {'inside' if want else 'outside'} bins {b} gets total weight {sum(row)} (weights {row}); expected {want}")
                else:
                    for j in range(m):
                        if not close(row[j], Wm[i][j]):
                            return V("C07", "weights", "kernel", feat,
                                     f"cell theta {th[i]}..{th[i+1]} -> bin [{bins[j]},{bins[j+1]}]: weight {row[j]}, overlap model {Wm[i][j]} (bins {list(bins)})")
                    if inside and not close(sum(row), 1.0):
                        return V("C07", "conservation", "kernel", feat,
                                 f"cell theta {th[i]}..{th[i+1]} inside bins {list(bins)} gets total weight {sum(row)}")
            exp = Wc.T @ phi[c]
            if not np.allclose(out[c], exp, rtol=1e-12, atol=1e-9):
                return V("C07", "linearity", "kernel", feat,
                         f"column {c}: out {out[c].tolist()} != W^T.phi {exp.tolist()} (phi {phi[c].tolist()}, theta {list(th)}, bins {list(bins)})")
            if inside and not close(float(out[c].sum()), float(phi[c].sum()), 1e-10):
                return V("C07", "conservation", "kernel", feat,
                         f"column {c}: sum over bins {float(out[c].sum())} != sum over cells {float(phi[c].sum())} (theta {list(th)}, bins {list(bins)})")
        if spec.get("scale_exp"):
            cnt.c["scaled_calls"] += 1
            sc = 2.0 ** spec["scale_exp"]
            out_s = T.interp_1d_conservative(phi * sc, theta_arg, bins)
            if not np.array_equal(out_s / sc, out, equal_nan=True):
                return V("C07", "linearity", "kernel", feat + "/scaled",
                         f"data multiplied by 2^{spec['scale_exp']} do not give the result multiplied by 2^{spec['scale_exp']}: "
                         f"{(out_s / sc).tolist()} (rescaled) vs {out.tolist()} (phi {phi.tolist()}, bins {list(bins)})")
        # reversing the bins only reverses the output - per column
        out_rev = T.interp_1d_conservative(phi, theta_arg, bins[::-1].copy())
        if not np.array_equal(out_rev, out[..., ::-1], equal_nan=True):
            return V("C07", "reverse", "kernel", feat,
                     f"listing the bins in reverse order does not just reverse the output: bins {list(bins)} -> {out.tolist()}, reversed bins -> {out_rev.tolist()}")
        # merging two adjacent bins sums their contents
        j = spec.get("merge_at")
        if j:
            mb = np.delete(bins, j)
            om = T.interp_1d_conservative(phi, theta_arg, mb)
            exp = np.concatenate([out[..., : j - 1], (out[..., j - 1] + out[..., j])[..., None], out[..., j + 1:]], axis=-1)
            # a homogeneous cell sitting exactly on the removed edge is counted once before and after
            if not np.allclose(om, exp, rtol=1e-12, atol=1e-9):
                return V("C07", "merge", "kernel", feat,
                         f"merging bins {j-1},{j} of {list(bins)}: got {om.tolist()}, expected {exp.tolist()}")
        return None
    # ---------------- grid level
    cnt.c["grid_cases"] += 1
    return run_grid(spec, cnt, "C07", feat)


def _grid_and_arrays(spec, prop):
    """dataset, grid, data array, target_data, target for a grid-level case"""
    n = spec["n"]
    cols = spec["cols"]
    cdims = ["x", "y"][: len(cols)]
    axes = {"Z": {"n": n if not (prop == "C08" and spec.get("z_pos") == "outer") else n - 1,
                  "pos": {"center": "zc", "outer": "zo"}}}
    gs = {"axes": axes, "extra": {d: c for d, c in zip(cdims, cols)}, "vars": {},
          "grid": {"periodic": False, "boundary": spec.get("boundary", "fill")}}
    ds = worlds.build_ds(gs)
    grid = worlds.build_grid(ds, gs)
    return gs, ds, grid, cdims


def run_grid(spec, cnt, prop, feat):
    import dask
    from xgcm import transform as T

    n = spec["n"]
    cols = spec["cols"]
    gs, ds, grid, cdims = _grid_and_arrays(spec, prop)
    orng = np.random.default_rng(spec["dim_order_seed"])
    f32 = spec.get("float32")
    if prop == "C07":
        phi = _phi_array(spec, n)
        zdim_phi = "zc"
        if spec["target_on"] == "outer":
            theta = _theta_array(spec, n + 1)
            zdim_th = "zo"
        else:
            # target_data on centres: the first n values of every profile; xgcm interpolates to the bounds
            theta = _theta_array(spec, n + 1)[..., :n]
            zdim_th = "zc"
    else:
        phi = _phi_array(spec, n, positive=False)
        theta = _theta_array(spec, n)
        zdim_phi = zdim_th = "zc" if spec.get("z_pos") != "outer" else "zo"
    dims_phi = cdims + [zdim_phi]
    perm = list(orng.permutation(len(dims_phi)))
    da = xr.DataArray(phi, dims=dims_phi).transpose(*[dims_phi[i] for i in perm])
    da.name = spec.get("da_name", "q")
    td_full = xr.DataArray(theta, dims=cdims + [zdim_th])
    if spec.get("td_lower_dim"):
        # lower-dimensional target_data: the first column's profile for everybody
        td = td_full.isel({d: 0 for d in cdims[:1]})
        theta_eff = np.broadcast_to(np.expand_dims(theta[0], 0), theta.shape) if cdims else theta
    else:
        td = td_full
        theta_eff = theta
    perm2 = list(orng.permutation(td.ndim))
    td = td.transpose(*[td.dims[i] for i in perm2])
    td.name = spec.get("td_name")
    if f32:
        da = da.astype("float32")
        td = td.astype("float32")
    if spec.get("fine_f32"):
        da = da.astype("float32")
    if spec.get("int_data"):
        da = da.astype("int64")
    if spec.get("td_int") and not f32:
        td = td.astype("int64")
    if spec.get("da_coords", True):
        da = da.assign_coords({d: ds[d] for d in da.dims if d in ds.coords})
    kw = {"target_data": td}
    if prop == "C08" and spec.get("td_none"):
        kw.pop("target_data")
    if prop == "C07":
        kw["method"] = "conservative"
        if spec.get("td_none"):
            kw.pop("target_data")
        bins = np.array(spec["bins"], dtype="float64")
        if spec["bins_as"] == "da":
            target = xr.DataArray(bins, dims=["sigma"], coords={"sigma": bins}, name="sigma")
            exp_dim = "sigma"
        else:
            target = bins
            exp_dim = spec.get("td_name") or "TRANSFORMED_DIMENSION"
    else:
        kw["method"] = spec["method"]
        kw["mask_edges"] = spec["mask_edges"]
        if spec["bypass_checks"]:
            kw["bypass_checks"] = True
        if spec.get("suffix") is not None:
            kw["suffix"] = spec["suffix"]
        tg = spec["target"]
        if tg["kind"] == "np":
            target = np.array(tg["levels"], dtype="float64")
            exp_dim = spec.get("td_name") or "TRANSFORMED_DIMENSION"
            if spec.get("td_none"):
                exp_dim = zdim_th  # target_data defaults to the grid's coordinate, whose name is the dimension's
        elif tg["kind"] == "da":
            lv = np.array(tg["levels"], dtype="float64")
            target = xr.DataArray(lv, dims=[tg["dim"]], coords={tg["dim"]: lv}, name=tg["name"],
                                  attrs={"units": "kg m-3"})
            target = target.assign_coords(run=7)  # a scalar coordinate riding along
            exp_dim = tg["dim"]
        else:
            lv = np.array(tg["levels"], dtype="float64").reshape(tuple(cols) + (-1,))
            target = xr.DataArray(lv, dims=cdims + [tg["dim"]], name=tg["name"])
            kw["target_dim"] = tg["dim"]
            exp_dim = tg["dim"]
    if f32 and prop == "C08":
        # one precision for everything: with float32 target_data and float64 levels the
        # logarithms of an end value and of an equal level are rounded differently and
        # "exactly at the end value" stops being exact (an artefact of mixing
        # precisions, not of the transform)
        target = target.astype("float32")
    # ---- eager
    with warnings.catch_warnings():
        warnings.simplefilter("ignore")
        try:
            eager = grid.transform(da, "Z", target, **kw)
            eager = eager.compute()
        except Exception as e:  # noqa
            cnt.c["eager_refused"] += 1
            return V(prop, "eager-raises", "grid", feat + "/" + type(e).__name__,
                     f"Grid.transform raised {type(e).__name__}: {str(e)[:300]} on a well-posed request "
                     f"(method {kw['method']}, target_data dims {td.dims}, da dims {da.dims})")
    if spec.get("scale_exp") and not spec.get("int_data"):
        cnt.c["scaled_calls"] += 1
        sc = np.asarray(2.0 ** spec["scale_exp"], dtype=da.dtype)
        with warnings.catch_warnings():
            warnings.simplefilter("ignore")
            try:
                eager_s = grid.transform((da * sc).rename(da.name), "Z", target, **kw).compute()
                same = eager_s.dims == eager.dims and np.array_equal((eager_s / sc).values, eager.values, equal_nan=True)
                why = "" if same else f"{(eager_s / sc).values.tolist()} (rescaled) vs {eager.values.tolist()}"
            except Exception as e:  # noqa
                same, why = False, f"raises {type(e).__name__}: {str(e)[:200]}"
        if not same:
            return V(prop, "linearity" if prop == "C07" else "values", "grid", feat + "/scaled",
                     f"Grid.transform of the data multiplied by 2^{spec['scale_exp']} is not the result multiplied by "
                     f"2^{spec['scale_exp']}: {why}"[:900])
    # ---- naming (C08 states it; for C07 only the presence of the new dimension is needed)
    if exp_dim not in eager.dims:
        return V(prop, "naming-dim", "grid", feat,
                 f"new dimension should be named {exp_dim!r} (target {'DataArray' if isinstance(target, xr.DataArray) else 'bare array'}, "
                 f"target_data name {spec.get('td_name')!r}); result dims are {eager.dims}")
    if prop == "C08":
        suffix = spec.get("suffix") if spec.get("suffix") is not None else "_transformed"
        want_name = (spec["da_name"] + suffix) if spec.get("da_name") else None
        if spec.get("da_name") and eager.name != want_name:
            return V(prop, "naming-result", "grid", feat if spec.get("suffix") is None else "custom-suffix",
                     f"result should be named {want_name!r} (input {spec['da_name']!r} + suffix {suffix!r}); it is {eager.name!r}")
    # ---- per-column values
    ev = eager.transpose(*cdims, exp_dim).values
    for c in _cols_iter(cols):
        cnt.c["columns_checked"] += 1
        if prop == "C07":
            th = theta_eff[c].astype("float64")
            if spec["target_on"] == "center":
                thc = th
                th = np.concatenate([[thc[0]], 0.5 * (thc[:-1] + thc[1:]), [thc[-1]]])
            if f32:
                th = th.astype("float32").astype("float64")
            exp = T.interp_1d_conservative(phi[c].astype("float64"), th, bins)
            got = ev[c].astype("float64")
            tol = 1e-5 if f32 else 1e-12
            if not np.allclose(got, exp, rtol=tol, atol=tol * 100, equal_nan=True):
                return V(prop, "column-values", "grid", feat,
                         f"column {c}: Grid.transform gives {got.tolist()}, the kernel on that column gives {exp.tolist()} "
                         f"(phi {phi[c].tolist()}, theta on bounds {th.tolist()}, bins {bins.tolist()})")
            if th.min() >= bins.min() and th.max() <= bins.max():
                cnt.c["columns_inside_span"] += 1
                if not close(float(got.sum()), float(phi[c].sum()), 1e-5 if f32 else 1e-10):
                    return V(prop, "conservation", "grid", feat,
                             f"column {c}: sum over bins {float(got.sum())} != sum over cells {float(phi[c].sum())} "
                             f"(theta on bounds {th.tolist()}, bins {bins.tolist()})")
        else:
            th = theta_eff[c]
            tg = spec["target"]
            lv = tg["levels"][int(np.ravel_multi_index(c, cols))] if tg["kind"] == "nd" else tg["levels"]
            if f32:
                # the levels were handed over in float32: that is what the interpolation saw
                lv = [float(np.float32(x)) for x in lv]
            if th[-1] < th[0]:
                cnt.c["decreasing_columns"] += 1
            exp = model_linear(lv, th, phi[c], spec["mask_edges"], log=spec["method"] == "log")
            got = [float(x) for x in ev[c]]
            # float32 cases only add dtype variety; their tolerance is generous (float32
            # logarithms over a short interval amplify rounding by the slope of phi)
            tol = 1e-3 * max(1.0, float(np.abs(phi[c]).max())) if f32 else (1e-5 if spec.get("fine_f32") else 1e-12)
            for k, (g, e) in enumerate(zip(got, exp)):
                if lv[k] in (min(th), max(th)):
                    cnt.c["levels_at_end_values"] += 1
                if isinstance(e, float) and math.isnan(e):
                    cnt.c["masked_levels"] += 1
                if not close(g, e, tol):
                    kind = "mask" if (math.isnan(g) != (isinstance(e, float) and math.isnan(e))) else "values"
                    return V(prop, kind, "grid", _c08_feat(spec, th, lv[k]),
                             f"column {c}, level {lv[k]}: got {g}, piecewise-linear model {e} (method {spec['method']}, mask_edges "
                             f"{spec['mask_edges']}, theta {list(th)}, phi {phi[c].tolist()}, levels {lv})")
    # ---- lazy under simulated schedules
    chunks = {d: tuple(ch) for d, ch in zip(cdims, spec.get("chunks") or [])}
    if any(len(c) > 1 for c in chunks.values()):
        cnt.c["multi_chunk_cases"] += 1
    lda = da.chunk(chunks)
    ltd = td.chunk({d: c for d, c in chunks.items() if d in td.dims}) if spec.get("td_lazy") else td
    lkw = dict(kw)
    if "target_data" in kw:
        lkw["target_data"] = ltd
    ltarget = target
    if isinstance(target, xr.DataArray) and target.ndim > 1 and spec.get("td_lazy"):
        ltarget = target.chunk({d: c for d, c in chunks.items() if d in target.dims})
    with warnings.catch_warnings():
        warnings.simplefilter("ignore")
        try:
            lazy = grid.transform(lda, "Z", ltarget, **lkw)
        except Exception as e:  # noqa
            return V(prop, "lazy-refused", "grid", feat + "/" + type(e).__name__,
                     f"in-memory transform returns, the same call on dask-backed data (chunks {chunks}) raises {type(e).__name__}: {str(e)[:300]}")
        for si, sc in enumerate(spec["schedules"]):
            sim = None
            try:
                if sc["policy"] == "real-sync":
                    with dask.config.set(scheduler="synchronous"):
                        got = lazy.compute()
                else:
                    sim = SimScheduler(seed=sc["seed"], policy=sc["policy"], faults=_with_watch(sc.get("faults")))
                    cfg = {"scheduler": sim}
                    if not sc.get("fuse", True):
                        cfg["optimization.fuse.active"] = False
                    with dask.config.set(cfg):
                        got = lazy.compute()
            except Exception as e:  # noqa
                if isinstance(e, RuntimeError) and "harness bug" in str(e):
                    raise
                return V(prop, "lazy-compute-raises", "grid", feat + "/" + type(e).__name__,
                         f"computing the lazy transform (chunks {chunks}) under schedule {sc} raised {type(e).__name__}: {str(e)[:300]}", si)
            cnt.c["computes"] += 1
            if sim is not None:
                cnt.c["tasks_executed"] += sim.tasks_executed
                cnt.c["choice_points"] += sim.choice_points
                for k2, v2 in sim.fired.items():
                    cnt.fired[k2] = cnt.fired.get(k2, 0) + v2
                cnt.orders.add(sim.digest())
                cnt.graph_shapes.update(sim.graph_shapes)
            if tuple(got.dims) != tuple(eager.dims):
                got = got.transpose(*eager.dims)
            if not np.array_equal(got.values, eager.values, equal_nan=True) or got.name != eager.name:
                bad = np.argwhere(~((got.values == eager.values) | (np.isnan(got.values) & np.isnan(eager.values))))
                return V(prop, "lazy-differs", "grid", feat,
                         f"chunking the non-axis dimensions ({chunks}) changes the result under schedule {sc}: first differing index "
                         f"{bad[0].tolist() if len(bad) else '(name)'}; eager {eager.values.tolist()} vs lazy {got.values.tolist()}", si)
        # ---- shared compute (F5): the same call with another target_data of the same name, dimensions and position
        # (the profiles of every column listed upside down - another time step of the same field), both lazy results
        # computed in one graph; each must still equal its own in-memory result
        if spec.get("pair") and "target_data" in kw and not spec.get("bypass_checks"):
            cnt.c["shared_computes"] += 1
            zax = td.dims.index(zdim_th)
            td2 = td.copy(data=np.flip(np.asarray(td.values), axis=zax))
            kw2 = dict(kw, target_data=td2)
            lkw2 = dict(lkw, target_data=(td2.chunk({d: c for d, c in chunks.items() if d in td2.dims})
                                          if spec.get("td_lazy") else td2))
            try:
                eager2 = grid.transform(da, "Z", target, **kw2).compute()
                lazy2 = grid.transform(lda, "Z", ltarget, **lkw2)
                with dask.config.set(scheduler="synchronous"):
                    got1, got2 = dask.compute(lazy, lazy2)
            except Exception as e:  # noqa
                return V(prop, "lazy-compute-raises", "grid", feat + "/paired/" + type(e).__name__,
                         f"the same transform with the target_data profiles listed upside down, computed together with the "
                         f"first one, raised {type(e).__name__}: {str(e)[:300]}")
            for g, e, which in ((got1, eager, "first"), (got2, eager2, "second")):
                g = g.transpose(*e.dims)
                if not np.array_equal(g.values, e.values, equal_nan=True):
                    return V(prop, "lazy-differs", "grid", feat + "/paired",
                             f"two transforms that differ only in the values of their target_data (same name {td.name!r}, dims "
                             f"{td.dims}), computed in one graph: the {which} result differs from its in-memory result: "
                             f"{g.values.tolist()} vs {e.values.tolist()}"[:900])
    return None


def _c08_feat(spec, th, level):
    f = [spec["method"], "decreasing" if th[-1] < th[0] else "increasing"]
    if level in (min(th), max(th)):
        f.append("level-at-end-value")
    elif level < min(th) or level > max(th):
        f.append("level-outside")
    return "+".join(f)


# ------------------------------------------------------------------- C08
def run_c08(spec, cnt):
    from xgcm import transform as T

    n = spec["n"]
    cols = spec["cols"]
    if spec["level"] == "grid":
        cnt.c["grid_cases"] += 1
        return run_grid(spec, cnt, "C08", spec["method"])
    cnt.c["kernel_cases"] += 1
    theta = _theta_array(spec, n)
    phi = _phi_array(spec, n)
    lv = np.array(spec["levels"], dtype="float64")
    log = spec["method"] == "log"
    out = T.interp_1d_linear(phi, theta, lv, mask_edges=spec["mask_edges"], bypass_checks=spec["bypass_checks"],
                             logarithmic=log)
    if out.shape != tuple(cols) + (len(lv),):
        return V("C08", "shape", "kernel", spec["method"], f"output shape {out.shape} for cols {cols}, {len(lv)} levels")
    for c in _cols_iter(cols):
        cnt.c["columns_checked"] += 1
        th = theta[c]
        if th[-1] < th[0]:
            cnt.c["decreasing_columns"] += 1
        o1 = T.interp_1d_linear(phi[c], th, lv, mask_edges=spec["mask_edges"], bypass_checks=spec["bypass_checks"],
                                logarithmic=log)
        if not np.array_equal(o1, out[c], equal_nan=True):
            return V("C08", "column-independence", "kernel", spec["method"],
                     f"column {c} of the N-D call {out[c].tolist()} differs from the 1-D call on that column {o1.tolist()}")
        exp = model_linear(lv, th, phi[c], spec["mask_edges"], log=log)
        for k, (g, e) in enumerate(zip([float(x) for x in out[c]], exp)):
            if lv[k] in (th.min(), th.max()):
                cnt.c["levels_at_end_values"] += 1
            if isinstance(e, float) and math.isnan(e):
                cnt.c["masked_levels"] += 1
            if not close(g, e):
                kind = "mask" if (math.isnan(g) != (isinstance(e, float) and math.isnan(e))) else "values"
                return V("C08", kind, "kernel", _c08_feat(spec, th, lv[k]),
                         f"column {c}, level {lv[k]}: got {g}, piecewise-linear model {e} (method {spec['method']}, mask_edges "
                         f"{spec['mask_edges']}, bypass_checks {spec['bypass_checks']}, theta {th.tolist()}, phi {phi[c].tolist()})")
    if spec.get("scale_exp"):
        cnt.c["scaled_calls"] += 1
        sc = 2.0 ** spec["scale_exp"]
        out_s = T.interp_1d_linear(phi * sc, theta, lv, mask_edges=spec["mask_edges"], bypass_checks=spec["bypass_checks"],
                                   logarithmic=log)
        if not np.array_equal(out_s / sc, out, equal_nan=True):
            return V("C08", "values", "kernel", spec["method"] + "/scaled",
                     f"data multiplied by 2^{spec['scale_exp']} do not give the interpolant multiplied by 2^{spec['scale_exp']}: "
                     f"{(out_s / sc).tolist()} (rescaled) vs {out.tolist()}")
    # level order must not matter
    perm = np.random.default_rng(spec["phi_seed"]).permutation(len(lv))
    out2 = T.interp_1d_linear(phi, theta, lv[perm], mask_edges=spec["mask_edges"], bypass_checks=spec["bypass_checks"],
                              logarithmic=log)
    if not np.array_equal(out2, out[..., perm], equal_nan=True):
        return V("C08", "level-order", "kernel", spec["method"], "permuting the target levels does not just permute the output")
    return None


def run_case(spec, cnt=None):
    cnt = cnt or TrCounters()
    cnt.c["cases"] += 1
    numba = install_poison(*spec["poison"])
    cnt.poison_kinds[spec["poison"][0]] = cnt.poison_kinds.get(spec["poison"][0], 0) + 1
    before = dict(numba.STATS)
    with DeterministicUUID(core.derive("uuid", core.digest(spec))):
        v = run_c07(spec, cnt) if spec["prop"] == "C07" else run_c08(spec, cnt)
    cnt.c["poisoned_elements"] += numba.STATS["poisoned_elements"] - before["poisoned_elements"]
    cnt.c["kernel_calls"] += numba.STATS["kernel_calls"] - before["kernel_calls"]
    return v


# ------------------------------------------------------------ minimisation
def minimise(spec, fingerprint):
    budget = [80]

    def test(s):
        v = run_case(s)
        return bool(v) and v["fingerprint"] == fingerprint

    def cands(s):
        if s.get("schedules") and len(s["schedules"]) > 1:
            for i in range(len(s["schedules"])):
                t = copy.deepcopy(s)
                t["schedules"] = [s["schedules"][i]]
                yield t
        for i, sc in enumerate(s.get("schedules") or []):
            for k in list(sc.get("faults") or {}):
                t = copy.deepcopy(s)
                del t["schedules"][i]["faults"][k]
                yield t
        # fewer columns
        cols = s["cols"]
        ncol = int(np.prod(cols)) if cols else 1
        if ncol > 1:
            for keep in range(ncol):
                t = copy.deepcopy(s)
                t["cols"] = []
                t["theta"] = [s["theta"][keep]]
                if t.get("chunks") is not None:
                    t["chunks"] = []
                if t.get("target", {}).get("kind") == "nd":
                    t["target"] = dict(t["target"], kind="da", levels=s["target"]["levels"][keep], name="sigma")
                t["td_lower_dim"] = False
                yield t
            if len(cols) == 2:
                t = copy.deepcopy(s)
                t["cols"] = [cols[0]]
                t["theta"] = s["theta"][:: cols[1]]
                if t.get("chunks") is not None:
                    t["chunks"] = t["chunks"][:1]
                if t.get("target", {}).get("kind") == "nd":
                    t["target"]["levels"] = s["target"]["levels"][:: cols[1]]
                yield t
        for ch_i, ch in enumerate(s.get("chunks") or []):
            if len(ch) > 1:
                t = copy.deepcopy(s)
                t["chunks"][ch_i] = [sum(ch)]
                yield t
        if s.get("poison", [None])[0] != "nan":
            t = copy.deepcopy(s)
            t["poison"] = ["nan", 0]
            yield t
        # shorter columns
        if s["n"] > (1 if s["prop"] == "C07" else 2):
            for cut in ("last", "first"):
                t = copy.deepcopy(s)
                t["n"] = s["n"] - 1
                t["theta"] = [c[:-1] if cut == "last" else c[1:] for c in s["theta"]]
                yield t
        if s["prop"] == "C07" and len(s["bins"]) > 2:
            for j in range(len(s["bins"])):
                t = copy.deepcopy(s)
                del t["bins"][j]
                t["merge_at"] = None
                yield t
        if s["prop"] == "C08":
            lvkey = "levels" if s["level"] == "kernel" else None
            if lvkey and len(s[lvkey]) > 1:
                for j in range(len(s[lvkey])):
                    t = copy.deepcopy(s)
                    del t[lvkey][j]
                    yield t
            if s["level"] == "grid" and s["target"]["kind"] != "nd" and len(s["target"]["levels"]) > 1:
                for j in range(len(s["target"]["levels"])):
                    t = copy.deepcopy(s)
                    del t["target"]["levels"][j]
                    yield t

    s = core.greedy(copy.deepcopy(spec), cands, test, budget)
    return s, 80 - budget[0]


class Engine:
    def __init__(self, prop):
        self.prop = prop
        self.cnt = TrCounters()
        self.nsamples = 0
        self.minimised = set()

    def run(self, i, seed_i, tier):
        rng = core.stream(seed_i, "workload")
        spec = gen_c07(rng, tier) if self.prop == "C07" else gen_c08(rng, tier)
        srng = core.stream(seed_i, "scale")
        if not spec.get("int_data") and srng.random() < 0.3:
            # the same call on the data multiplied by a power of two (tiny or huge magnitudes: tracer concentrations,
            # masses in kg): both transforms are linear in the data and a power of two scales every product and sum
            # exactly, so the result must be the scaled result bit for bit
            spec["scale_exp"] = srng.choice([-200, -100, -60, -40, -30, 30, 60] if not spec.get("float32")
                                            and not spec.get("fine_f32") else [-60, -40, -30, 30, 40])
        if spec["level"] == "grid" and srng.random() < 0.25:
            spec["pair"] = True
        if self.prop == "C08" and spec["method"] == "log" and spec["mask_edges"] and srng.random() < 0.3:
            # a level of the opposite sign to the (positive) target_data: outside the range, so masked
            if spec["level"] == "kernel":
                lst = spec["levels"]
            elif spec["target"]["kind"] == "nd":
                lst = srng.choice(spec["target"]["levels"])
            else:
                lst = spec["target"]["levels"]
            k = srng.randrange(len(lst))
            lst[k] = -lst[k]
            spec["negative_level"] = True
        v = run_case(spec, self.cnt)
        ncol = int(np.prod(spec["cols"])) if spec["cols"] else 1
        multi = any(len(c) > 1 for c in (spec.get("chunks") or []))
        if self.prop == "C07":
            shape = core.digest([spec["level"], spec["n"], spec["cols"], spec["bins"], spec["theta"], spec.get("chunks"),
                                 spec.get("target_on"), spec.get("bins_as")], 12)
        else:
            shape = core.digest([spec["level"], spec["n"], spec["cols"], spec["theta"], spec.get("levels"), spec.get("target"),
                                 spec["method"], spec["mask_edges"], spec.get("chunks")], 12)
        nontrivial = (ncol > 1 and (spec["level"] == "kernel" or multi))
        rec = {"d": core.digest([spec, v["fingerprint"] if v else None]), "nt": nontrivial, "shape": shape, "viol": None}
        if v:
            if v["fingerprint"] not in self.minimised:
                self.minimised.add(v["fingerprint"])
                mspec, used = minimise(spec, v["fingerprint"])
                v2 = run_case(mspec) or v
            else:
                mspec, used, v2 = spec, None, v
            rec["viol"] = {"fingerprint": v2["fingerprint"], "spec": mspec, "detail": v2["detail"], "min_steps": used}
        if self.nsamples < 2 and i % 11 == 0 and not v:
            self.nsamples += 1
            rec["sample"] = spec
        return rec

    def stats(self):
        d = dict(self.cnt.c)
        d["faults_fired"] = dict(self.cnt.fired)
        d["distinct_execution_orders"] = sorted(self.cnt.orders)
        d["distinct_graph_shapes"] = sorted(self.cnt.graph_shapes)
        d["poison_kinds"] = dict(self.cnt.poison_kinds)
        return d


def replay(spec):
    return run_case(spec)


merge_stats = core.merge_stats

COMPONENTS = {
    "real": ["xgcm.transform kernel bodies (run unmodified under CPython), xgcm.transform wrappers, Grid.transform",
             "xarray.apply_ufunc, dask graph construction", "dask synchronous scheduler (schedule 0)"],
    "stub": ["numba.guvectorize: pure-Python stand-in (xsim/numba_stub) that owns the output allocation and fills it with seeded garbage",
             "dask scheduler: xsim.dasksim.SimScheduler for simulated schedules"],
    "absent": ["real numba (JIT, fastmath, compiled broadcasting)", "dask.distributed"],
}
