"""Engine A driver for C06: lazy (dask) execution == in-memory execution.

One run = one generated case spec (grid, data, chunk layout, operation) that is
(1) executed eagerly, (2) built lazily under a monitor that counts every
computation, (3) computed under several simulated schedules (policy x fault
set, one PRNG stream each) and compared with the eager result.
"""

import copy
import time
import warnings

import numpy as np
import xarray as xr

from . import core, worlds
from .dasksim import POLICIES, BuildMonitor, DeterministicUUID, SimScheduler

POSN = ["center", "left", "right", "inner", "outer"]
DIMNAME = {"X": "x", "Y": "y", "Z": "z"}
SUFFIX = {"center": "c", "left": "g", "right": "r", "inner": "i", "outer": "o"}
STENCIL_OPS = ["diff", "interp", "min", "max"]
METRIC_OPS = ["derivative", "integrate", "average", "cumint"]


# ------------------------------------------------------------ user ufuncs
def make_stencil(weights_per_axis, nout=1, strict=False):
    """function applying an integer-weight stencil over the trailing len(w)
    dims; shrinks each by len(w_axis)-1.  With nout=2 it returns a pair
    (the stencil and an affine image of it)."""

    def stencil(*arrs, scale=1.0, shift=0.0):
        # (`scale` and `shift` are keyword parameters of the user function: callers hand them to
        # apply_as_grid_ufunc / the GridUFunc object as extra keyword arguments)
        a = arrs[0]
        for extra in arrs[1:]:
            a = a + 2.0 * extra
        nd = len(weights_per_axis)
        for ai, w in enumerate(weights_per_axis):
            axis = a.ndim - nd + ai
            s = len(w)
            out_len = a.shape[axis] - s + 1
            if strict and out_len <= 0:
                # (like np.gradient and most hand-written column functions: a column shorter than the stencil is an
                # error - e.g. the 1-element dummy blocks dask uses when it has to guess an output dtype)
                raise ValueError(f"stencil of {s} points applied to a column of {a.shape[axis]}")
            acc = None
            for i, wi in enumerate(w):
                sl = [slice(None)] * a.ndim
                sl[axis] = slice(i, i + out_len)
                term = a[tuple(sl)] * float(wi)
                acc = term if acc is None else acc + term
            a = acc
        if scale != 1.0 or shift != 0.0:
            a = a * float(scale) + float(shift)
        if nout == 2:
            return a, a * 3.0 + 1.0
        return a

    # (no "-" in the name: dask.array.apply_gufunc splits task names on "-")
    stencil.__name__ = "stencil_" + "_".join("".join(str(x).replace("-", "m") for x in w) for w in weights_per_axis)
    if nout == 2:
        stencil.__name__ += "_pair"
    return stencil


def make_shrink(nshrink):
    def shrink(a):
        return a[..., : a.shape[-1] - nshrink] * 2.0

    return shrink


# --------------------------------------------------------------- generator
def gen_simple_grid(rng, tier):
    big = tier == "thorough"
    nax = rng.choice([1, 1, 2, 2, 3])
    names = ["X", "Y", "Z"][:nax]
    if rng.random() < 0.3:
        rng.shuffle(names)
    axes = {}
    for a in names:
        extra_pos = [p for p in POSN[1:] if rng.random() < 0.45]
        if not extra_pos:
            extra_pos = [rng.choice(POSN[1:])]
        pos = ["center"] + extra_pos
        rng.shuffle(pos)
        n = rng.randint(2, 9 if big else 7)
        axes[a] = {"n": n, "pos": {p: DIMNAME[a] + SUFFIX[p] for p in pos}}
    extra = {}
    for d in ("t", "k"):
        if rng.random() < 0.4:
            extra[d] = rng.randint(1, 3)
    if rng.random() < 0.07:
        # a long dimension: blocks of 10^4 .. 10^5 elements, so that code paths chosen by the size of a block
        # (workspaces, thresholds) are run as well; chunked into a few equal blocks (see gen_chunks)
        extra["b"] = rng.choice([4096, 8192, 9000, 12000, 16384])
    words = ["fill", "extend", "periodic"]
    g = {"periodic": False}
    r = rng.random()
    if r < 0.5:
        g["boundary"] = {a: rng.choice(words) for a in names}
    elif r < 0.8:
        g["boundary"] = rng.choice(words)
    else:
        g["periodic"] = rng.choice([True, [a for a in names if rng.random() < 0.5]])
    r = rng.random()
    if r < 0.3:
        g["fill_value"] = {a: float(rng.randint(-3, 3)) for a in names}
    elif r < 0.5:
        g["fill_value"] = float(rng.randint(-3, 3))
    if rng.random() < 0.2:
        # explicit default shifts (what `to=None` means) for some positions
        ds_ = {}
        for a, ax in axes.items():
            others = [p for p in ax["pos"] if p != "center"]
            if others and rng.random() < 0.7:
                ds_[a] = {"center": rng.choice(others)}
        if ds_:
            g["default_shifts"] = ds_
    return {"axes": axes, "extra": extra, "grid": g, "vars": {}}


def add_metrics(rng, gs):
    """dyadic positive metrics at random positions; registered in the grid."""
    metrics = {}
    for a, ax in gs["axes"].items():
        poss = [p for p in ax["pos"] if rng.random() < 0.6] or [rng.choice(list(ax["pos"]))]
        names = []
        for p in poss:
            nm = f"d{a.lower()}_{SUFFIX[p]}"
            mdims = [ax["pos"][p]]
            if rng.random() < 0.25:
                # a metric that also varies along other axes (e.g. dx(y, x), dz(z, y, x))
                for b, bx in gs["axes"].items():
                    if b != a and rng.random() < 0.7:
                        bp = "center" if rng.random() < 0.8 else rng.choice(list(bx["pos"]))
                        mdims.insert(0, bx["pos"][bp])
            gs["vars"][nm] = {"dims": mdims, "data": {"gen": "dyadic", "seed": rng.randrange(10**6)},
                              "coord": rng.random() < 0.5}
            names.append(nm)
        metrics[a] = names
    axn = list(gs["axes"])
    if len(axn) >= 2 and rng.random() < 0.5:
        a, b = axn[0], axn[1]
        pa, pb = rng.choice(list(gs["axes"][a]["pos"])), rng.choice(list(gs["axes"][b]["pos"]))
        nm = f"area_{SUFFIX[pa]}{SUFFIX[pb]}"
        dims = [gs["axes"][b]["pos"][pb], gs["axes"][a]["pos"][pa]]
        gs["vars"][nm] = {"dims": dims, "data": {"gen": "dyadic", "seed": rng.randrange(10**6)}}
        metrics[f"{a},{b}"] = [nm]
    gs["grid"]["metrics"] = metrics


def valid_to(ax, from_pos):
    if from_pos == "center":
        return [p for p in ax["pos"] if p != "center"]
    return ["center"]


def gen_input(rng, gs, op_axes, need_all_axes=False, name="q"):
    """input array spec: one position per grid axis it carries, extra dims, random dim order"""
    dims, posof = [], {}
    for a, ax in gs["axes"].items():
        if a in op_axes or need_all_axes or rng.random() < 0.6:
            p = rng.choice(list(ax["pos"]))
            posof[a] = p
            dims.append(ax["pos"][p])
    for d in gs.get("extra") or {}:
        if rng.random() < 0.8:
            dims.append(d)
    if gs.get("face"):
        dims.append(gs["face"]["dim"])
    rng.shuffle(dims)
    data = {"gen": "randint", "seed": rng.randrange(10**6), "lo": -40, "hi": 40}
    if rng.random() < 0.15:
        data["nan_seed"] = rng.randrange(10**6)
    if rng.random() < 0.12:
        data["dtype"] = "float32"
    spec = {"dims": dims, "data": data, "name": name if rng.random() < 0.8 else None,
            "attrs": {"units": "m"} if rng.random() < 0.3 else {}}
    if rng.random() < 0.3:
        # coordinates the grid dataset knows nothing about: a scalar one (as left by .isel) and one along a dimension
        spec["extra_coords"] = {"scalar": 3.5, "along": rng.choice(dims)}
    return spec, posof


def gen_chunks(rng, dims, sizes, allowed=None):
    ch = {}
    for d in dims:
        if allowed is not None and d not in allowed:
            continue
        if sizes[d] > 64:
            # long dimension: a few blocks, equal where the length allows it
            k = rng.choice([1, 2, 2, 3, 4])
            q, r = divmod(sizes[d], k)
            ch[d] = [q + (1 if i < r else 0) for i in range(k)]
            continue
        ch[d] = list(worlds.compositions(rng, sizes[d]))
    return ch


def call_kwargs(rng, gs, axes):
    kw = {}
    words = ["fill", "extend", "periodic"]
    axn = list(gs["axes"])
    r = rng.random()
    if r < 0.25:
        kw["boundary"] = rng.choice(words)
    elif r < 0.45:
        kw["boundary"] = {a: rng.choice(words) for a in axn if rng.random() < 0.7}
    r = rng.random()
    if r < 0.2:
        kw["fill_value"] = float(rng.randint(-3, 3))
    elif r < 0.35:
        kw["fill_value"] = {a: float(rng.randint(-3, 3)) for a in axn if rng.random() < 0.7}
    if rng.random() < 0.25:
        kw["keep_coords"] = True
    return kw


def gen_metric_lazy_case(rng, tier):
    """Family: metric-aware multi-axis operations on a lazily chunked grid dataset whose chunking is
    independent of the data's (no inner/outer positions, so nothing here is exempt)."""
    names = rng.sample(["X", "Y", "Z"], rng.choice([2, 2, 3]))
    axes = {}
    for a in names:
        pos = ["center"] + rng.sample(["left", "right"], rng.choice([1, 1, 2]))
        axes[a] = {"n": rng.randint(2, 6), "pos": {p: DIMNAME[a] + SUFFIX[p] for p in pos}}
    extra = {d: rng.randint(1, 3) for d in ("t",) if rng.random() < 0.5}
    words = ["fill", "extend", "periodic"]
    gs = {"axes": axes, "extra": extra, "vars": {},
          "grid": {"periodic": False, "boundary": {a: rng.choice(words) for a in names}}}
    metrics = {}
    for a, ax in axes.items():
        metrics[a] = []
        for p, d in ax["pos"].items():
            nm = f"d{a.lower()}_{SUFFIX[p]}"
            gs["vars"][nm] = {"dims": [d], "data": {"gen": "dyadic", "seed": rng.randrange(10**6)}, "coord": rng.random() < 0.5}
            metrics[a].append(nm)
    gs["grid"]["metrics"] = metrics
    k = rng.choice([2, 2, len(names)])
    op_axes = rng.sample(names, k)
    inp, posof = gen_input(rng, gs, op_axes, need_all_axes=rng.random() < 0.5)
    opname = rng.choice(STENCIL_OPS + ["cumsum", "derivative", "cumint", "integrate", "average"])
    kw = {}
    if opname in ("integrate", "average"):
        op = {"name": opname, "axis": op_axes, "kw": {}}
    else:
        to = {a: rng.choice(valid_to(axes[a], posof[a])) for a in op_axes}
        if rng.random() < 0.7:
            kw["to"] = to
        if opname in STENCIL_OPS + ["cumsum"]:
            kw["metric_weighted"] = rng.choice([{a: [a] for a in op_axes}, {a: [a] for a in op_axes}, [op_axes[0]],
                                                # weighted along the first axis only: later axes run unweighted on an
                                                # array that the first axis' metric has made dask-backed
                                                {a: ([a] if i == 0 else None) for i, a in enumerate(op_axes)}])
        if rng.random() < 0.4:
            kw["boundary"] = rng.choice(words)
        if opname == "derivative":
            op_axes = op_axes[:1]
            if "to" in kw:
                kw["to"] = {a: v for a, v in kw["to"].items() if a in op_axes}
        op = {"name": opname, "axis": op_axes[0] if opname == "derivative" else op_axes, "kw": kw}
    spec = {"gspec": gs, "kind": "simple", "input": inp, "op": op}
    sizes = worlds.dim_sizes(gs)
    spec["chunks"] = gen_chunks(rng, inp["dims"], sizes)
    alld = sorted({d for v in gs["vars"].values() for d in v["dims"]})
    spec["lazy_ds"] = gen_chunks(rng, alld, sizes)
    if (opname in METRIC_OPS + ["integrate", "average"] or "metric_weighted" in kw) and rng.random() < 0.3:
        # the caller's data are in memory, only the grid dataset (the metrics) is lazy: the array becomes dask-backed
        # half-way through the call, when it is first multiplied or divided by a metric
        spec["data_in_memory"] = True
        spec["chunks"] = {}
    if rng.random() < 0.5:
        # only some variables of the grid dataset are lazy (a dataset assembled from several sources)
        names_ = sorted(gs["vars"])
        spec["lazy_vars"] = [v for v in names_ if rng.random() < 0.5] or [rng.choice(names_)]
    return spec


def gen_simple_case(rng, tier):
    if rng.random() < 0.08:
        return gen_metric_lazy_case(rng, tier)
    gs = gen_simple_grid(rng, tier)
    axn = list(gs["axes"])
    r = rng.random()
    if r < 0.40:
        opname = rng.choice(STENCIL_OPS)
    elif r < 0.52:
        opname = "cumsum"
    elif r < 0.72:
        opname = rng.choice(METRIC_OPS)
    else:
        opname = "ufunc"
    if opname in METRIC_OPS or rng.random() < 0.25:
        add_metrics(rng, gs)
    if rng.random() < 0.3:
        # non-index coordinates of the grid dataset (they ride along on results; lazy when the dataset is)
        for j in range(rng.choice([1, 1, 2])):
            cd = []
            for a in rng.sample(axn, min(len(axn), rng.choice([1, 2]))):
                cd.append(gs["axes"][a]["pos"][rng.choice(list(gs["axes"][a]["pos"]))])
            gs["vars"][f"aux{j}"] = {"dims": cd, "data": {"gen": "randint", "seed": rng.randrange(10**6), "lo": 0, "hi": 9},
                                     "coord": True, "attrs": {"long_name": f"aux{j}"}}
    has_metrics = "metrics" in gs["grid"]
    k = rng.choice([1, 1, 1, 2, 3])
    op_axes = rng.sample(axn, min(k, len(axn)))
    spec = {"gspec": gs, "kind": "simple"}
    if opname == "ufunc":
        return gen_ufunc_case(rng, gs, spec, tier)
    inp, posof = gen_input(rng, gs, op_axes, need_all_axes=opname in ("integrate", "average") and rng.random() < 0.5)
    spec["input"] = inp
    if opname in STENCIL_OPS and rng.random() < 0.1:
        # Grid.interp_like: the target positions come from a second array
        like_dims, like_to = [], {}
        for a in gs["axes"]:
            if a not in posof:
                continue
            if a in op_axes:
                like_to[a] = rng.choice(valid_to(gs["axes"][a], posof[a]))
                like_dims.append(gs["axes"][a]["pos"][like_to[a]])
            elif rng.random() < 0.7:
                like_dims.append(gs["axes"][a]["pos"][posof[a]])
        for d in gs.get("extra") or {}:
            if d != "b" and rng.random() < 0.5:
                like_dims.append(d)
        rng.shuffle(like_dims)
        kw = {k: v for k, v in call_kwargs(rng, gs, op_axes).items() if k in ("boundary", "fill_value")}
        spec["input2"] = {"dims": like_dims, "data": {"gen": "arange"}, "name": "like", "attrs": {}}
        spec["op"] = {"name": "interp_like", "axis": [a for a in gs["axes"] if a in like_to], "like_to": like_to, "kw": kw}
        sizes = worlds.dim_sizes(gs)
        spec["chunks"] = gen_chunks(rng, inp["dims"], sizes)
        spec["chunks2"] = gen_chunks(rng, like_dims, sizes) if rng.random() < 0.7 else {}
        spec["lazy_ds"] = None
        return spec
    if opname in ("integrate", "average"):
        op = {"name": opname, "axis": op_axes if rng.random() < 0.8 else op_axes[0], "kw": {}}
        if opname == "integrate" and rng.random() < 0.3:
            op["kw"]["keep_attrs"] = True
    else:
        kw = call_kwargs(rng, gs, op_axes)
        to = {}
        for a in op_axes:
            vt = valid_to(gs["axes"][a], posof[a])
            if rng.random() < 0.7:
                to[a] = rng.choice(vt)
        if to and len(to) == len(op_axes) and len(set(to.values())) == 1 and rng.random() < 0.4:
            kw["to"] = next(iter(to.values()))
        elif to:
            kw["to"] = to
            # a partial `to` mapping fails identically eager and lazy (KeyError): complete it
            for a in op_axes:
                kw["to"].setdefault(a, None)
        if opname in ("cumsum", "cumint", "derivative"):
            kw.pop("keep_coords", None) if opname != "cumsum" else None
        if has_metrics and opname in STENCIL_OPS + ["cumsum"] and rng.random() < 0.5:
            mw_axes = [a for a in op_axes if a in gs["grid"]["metrics"]]
            if mw_axes:
                kw["metric_weighted"] = rng.choice([mw_axes, {a: [a] for a in mw_axes}, {a: [a] for a in mw_axes},
                                                    mw_axes[0]])
        if opname == "derivative":
            op_axes = op_axes[:1]
            axis = op_axes[0]
        else:
            axis = op_axes if (len(op_axes) > 1 or rng.random() < 0.5) else op_axes[0]
        if opname == "derivative" and isinstance(kw.get("to"), dict):
            kw["to"] = {a: v for a, v in kw["to"].items() if a in op_axes}
        op = {"name": opname, "axis": axis, "kw": kw}
    spec["op"] = op
    sizes = worlds.dim_sizes(gs)
    spec["chunks"] = gen_chunks(rng, inp["dims"], sizes)
    spec["lazy_ds"] = None
    if gs["vars"] and rng.random() < (0.8 if "metric_weighted" in op.get("kw", {}) else 0.5):
        alld = sorted({d for v in gs["vars"].values() for d in v["dims"]})
        spec["lazy_ds"] = gen_chunks(rng, alld, sizes)
    if opname in STENCIL_OPS + ["cumsum"] and rng.random() < 0.18:
        # chained operations: a second operation applied to the (lazy) result of the first one; both results are
        # computed in one graph, so the intermediate has two consumers
        then = gen_then(rng, gs, op, posof, inp)
        if then:
            spec["then"] = then
            return spec
    if opname in STENCIL_OPS + ["cumsum"] and rng.random() < 0.3:
        # F5 shared compute: a second lazy result computed in the same graph
        variant = rng.choice(["other-op", "other-data", "other-kwargs"])
        kw2 = {k: v for k, v in op["kw"].items() if k in ("to", "boundary", "fill_value", "metric_weighted")}
        if variant == "other-op":
            other = rng.choice([o for o in STENCIL_OPS if o != opname])
            kw2.pop("metric_weighted", None)
            spec["pair"] = {"name": other, "axis": op["axis"], "kw": kw2}
        elif variant == "other-data":
            spec["pair"] = {"name": opname, "axis": op["axis"], "kw": dict(op["kw"]), "data_seed": rng.randrange(10**6)}
        else:
            kw2 = dict(op["kw"])
            kw2["boundary"] = rng.choice(["fill", "extend", "periodic"])
            kw2["fill_value"] = float(rng.randint(4, 9))
            spec["pair"] = {"name": opname, "axis": op["axis"], "kw": kw2}
    return spec


def resolve_to(gs, a, fp, to):
    """position the result of a stencil op / cumsum has along axis a (explicit `to`, else the Grid's default shift)"""
    tp = to.get(a) if isinstance(to, dict) else to
    if tp is None:
        from xgcm.axis import FALLBACK_SHIFTS

        tp = ((gs.get("grid") or {}).get("default_shifts") or {}).get(a, {}).get(fp)
        if tp is None:
            tp = next((p for p in FALLBACK_SHIFTS[fp] if p in gs["axes"][a]["pos"]), None)
    return tp


def positions_after(gs, op, posof):
    axes = [op["axis"]] if isinstance(op["axis"], str) else list(op["axis"])
    out = dict(posof)
    for a in axes:
        out[a] = resolve_to(gs, a, posof[a], op.get("kw", {}).get("to"))
    return out


def gen_then(rng, gs, op, posof, inp):
    pos1 = positions_after(gs, op, posof)
    if any(p is None for p in pos1.values()):
        return None
    cand = list(pos1)
    k = rng.choice([1, 1, 2])
    axes2 = rng.sample(cand, min(k, len(cand)))
    name2 = rng.choice(STENCIL_OPS + ["cumsum"])
    kw2 = call_kwargs(rng, gs, axes2)
    kw2["to"] = {a: rng.choice(valid_to(gs["axes"][a], pos1[a])) for a in axes2}
    return {"name": name2, "axis": axes2 if (len(axes2) > 1 or rng.random() < 0.5) else axes2[0], "kw": kw2,
            "posof": pos1}


def then_virtual_spec(spec, inter=None):
    """the second operation of a chain seen as an operation on an input located where the first result is.  Its
    chunking is read off the lazy intermediate itself: `cumsum` pads by concatenation and returns more blocks along
    the axis than it was given (even for a single-chunk input), so "chunked along the operated axis" is a fact about
    the intermediate, not about the original input."""
    gs = spec["gspec"]
    dap = worlds.dim_axis_pos(gs)
    pos1 = spec["then"]["posof"]
    dims, chunks = [], {}
    for d in spec["input"]["dims"]:
        if d in dap:
            a = dap[d][0]
            nd = gs["axes"][a]["pos"][pos1[a]]
        else:
            nd = d
        dims.append(nd)
        if d in (spec.get("chunks") or {}):
            chunks[nd] = spec["chunks"][d]
    if inter is not None and getattr(inter, "variable", None) is not None and inter.variable.chunksizes:
        # (the variable's chunks: a result may carry lazy coordinates chunked differently from its data)
        chunks = {str(d): list(c) for d, c in inter.variable.chunksizes.items()}
    v = {"gspec": gs, "kind": spec["kind"], "op": spec["then"], "input": dict(spec["input"], dims=dims), "chunks": chunks,
         "lazy_ds": spec.get("lazy_ds")}
    return v


def gen_ufunc_case(rng, gs, spec, tier):
    axn = list(gs["axes"])
    nin = 1 if rng.random() < 0.75 else 2
    k = 1 if (len(axn) == 1 or rng.random() < 0.5) else 2
    uaxes = rng.sample(axn, k)
    sig_in, sig_out, bw, weights = [], [], {}, []
    dummy = {a: f"A{i}" for i, a in enumerate(uaxes)}
    frompos, topos = {}, {}
    plain_only = rng.random() < 0.5
    for a in uaxes:
        ax = gs["axes"][a]
        cand = [p for p in ax["pos"] if p not in ("inner", "outer")] if plain_only else list(ax["pos"])
        fp = rng.choice(cand)
        tp = rng.choice(cand)
        for _ in range(8):
            l, u = rng.randint(0, 2), rng.randint(0, 2)
            s = (ax["n"] + worlds.POS_LEN[fp] + l + u) - (ax["n"] + worlds.POS_LEN[tp]) + 1
            if s >= 1:
                break
        else:
            tp, l, u, s = fp, 1, 1, 3
        frompos[a], topos[a] = fp, tp
        bw[dummy[a]] = [l, u]
        weights.append([rng.randint(-2, 3) for _ in range(s)])
    inp, posof = gen_input(rng, gs, uaxes)
    # force the input onto the signature's positions
    for a in uaxes:
        old = gs["axes"][a]["pos"][posof[a]]
        inp["dims"] = [gs["axes"][a]["pos"][frompos[a]] if d == old else d for d in inp["dims"]]
    spec["input"] = inp
    inputs2 = None
    if nin == 2:
        inputs2 = copy.deepcopy(inp)
        inputs2["data"] = {"gen": "randint", "seed": rng.randrange(10**6), "lo": -9, "hi": 9}
        inputs2["name"] = "q2"
        if rng.random() < 0.45:  # fewer non-core dimensions (leading, middle or trailing ones)
            core_dims = [gs["axes"][a]["pos"][frompos[a]] for a in uaxes]
            inputs2["dims"] = [d for d in inputs2["dims"] if d in core_dims or rng.random() < 0.5]
            if (inputs2.get("extra_coords") or {}).get("along") not in inputs2["dims"]:
                inputs2.pop("extra_coords", None)
        spec["input2"] = inputs2
    in_arg = ",".join(f"{dummy[a]}:{frompos[a]}" for a in uaxes)
    out_arg = ",".join(f"{dummy[a]}:{topos[a]}" for a in uaxes)
    # a ufunc may return several arrays (here: two at the same positions)
    nout = 2 if rng.random() < 0.12 else 1
    signature = ",".join([f"({in_arg})"] * nin) + "->" + ",".join([f"({out_arg})"] * nout)
    sizes = worlds.dim_sizes(gs)
    spec["chunks"] = gen_chunks(rng, inp["dims"], sizes)
    if inputs2 is not None:
        spec["chunks2"] = dict(spec["chunks"]) if rng.random() < 0.6 else gen_chunks(rng, inputs2["dims"], sizes)
        spec["chunks2"] = {d: c for d, c in spec["chunks2"].items() if d in inputs2["dims"]}
    core_dims = [gs["axes"][a]["pos"][frompos[a]] for a in uaxes]
    core_chunked = any(len(spec["chunks"].get(d, [1])) > 1 for d in core_dims) or (
        inputs2 is not None and any(len(spec.get("chunks2", {}).get(d, [1])) > 1 for d in core_dims))
    has_io = any(p in ("inner", "outer") for p in list(frompos.values()) + list(topos.values()))
    if core_chunked:
        mode = ("allowed", True)
    elif has_io:
        mode = ("parallelized", False)
    else:
        mode = rng.choice([("parallelized", False), ("allowed", True)])
    # the mapping may list the axes in another order than the signature and leave out axes
    # that need no padding
    items = list(bw.items())
    if rng.random() < 0.5:
        rng.shuffle(items)
    items = [(k, v) for k, v in items if not (v == [0, 0] and rng.random() < 0.6)]
    bw = dict(items) if items else bw
    kw = {"axis": [list(uaxes)] * nin, "signature": signature, "boundary_width": bw,
          "dask": mode[0], "map_overlap": mode[1]}
    kw.update({k2: v for k2, v in call_kwargs(rng, gs, uaxes).items() if k2 != "keep_coords"})
    via = rng.choice(["apply", "decorator"])
    spec["op"] = {"name": "ufunc", "via": via, "weights": weights, "kw": kw, "nin": nin,
                  "frompos": frompos, "topos": topos}
    if nout == 2:
        spec["op"]["nout"] = 2
    if rng.random() < 0.3:
        spec["op"]["bw_list"] = True
    if rng.random() < 0.3:
        spec["op"]["strict"] = True
    if rng.random() < 0.3:
        # keyword arguments meant for the user function itself (xarray.apply_ufunc(kwargs=...))
        spec["op"]["func_kw"] = rng.choice([{"scale": 2.0}, {"shift": 3.0}, {"scale": -2.0, "shift": 1.0}])
    if inputs2 is not None and rng.random() < 0.4:
        # either argument may be the one with fewer dimensions
        spec["input"], spec["input2"] = spec["input2"], spec["input"]
        spec["chunks"], spec["chunks2"] = spec["chunks2"], spec["chunks"]
    spec["lazy_ds"] = None
    return spec


def gen_face_case(rng, tier):
    big = tier == "thorough"
    N = rng.randint(2, 5 if big else 4)
    r = rng.random()
    if r < 0.12:
        F, links = 6, copy.deepcopy(worlds.CUBED_SPHERE)
    elif r < 0.45:
        kx = rng.randint(1, 3)
        ky = rng.randint(1, 2)
        if kx * ky == 1:
            kx = 2
        F, links = kx * ky, worlds.tiling_links(kx, ky, rng.random() < 0.4, rng.random() < 0.3)
    else:
        F = rng.randint(2, 6 if big else 5)
        links = worlds.random_reciprocal_links(rng, F)
    if rng.random() < 0.4:
        links = worlds.sparsify(rng, links)
    other = rng.choice(["left", "left", "right"])
    axes = {"X": {"n": N, "pos": {"center": "xc", other: "xg"}},
            "Y": {"n": N, "pos": {"center": "yc", other: "yg"}}}
    extra = {d: rng.randint(1, 3) for d in ("t", "k") if rng.random() < 0.45}
    words = ["fill", "extend", "periodic"]
    g = {"periodic": False, "face_connections": {"face": links}}
    r = rng.random()
    if r < 0.5:
        g["boundary"] = {a: rng.choice(words) for a in axes}
    else:
        g["boundary"] = rng.choice(words)
    if rng.random() < 0.4:
        g["fill_value"] = float(rng.randint(-3, 3))
    gs = {"axes": axes, "extra": extra, "face": {"dim": "face", "n": F}, "grid": g, "vars": {}}
    spec = {"gspec": gs, "kind": "faces"}
    sizes = worlds.dim_sizes(gs)
    pre = ["face"] + [d for d in extra if rng.random() < 0.8]
    rng.shuffle(pre)
    vector = rng.random() < 0.45
    opname = rng.choice(STENCIL_OPS)
    kw = call_kwargs(rng, gs, ["X", "Y"])
    if vector:
        comp = rng.choice(["X", "Y"])
        udims = pre + ["yc", "xg"]
        vdims = pre + ["yg", "xc"]
        if rng.random() < 0.3:
            rng.shuffle(udims)
        u = {"dims": udims, "data": {"gen": "randint", "seed": rng.randrange(10**6), "lo": -40, "hi": 40}, "name": "u"}
        v = {"dims": vdims, "data": {"gen": "randint", "seed": rng.randrange(10**6), "lo": -40, "hi": 40}, "name": "v"}
        spec["input"] = u if comp == "X" else v
        spec["input2"] = v if comp == "X" else u
        spec["vector"] = {"axis": comp, "other_axis": "Y" if comp == "X" else "X"}
        r = rng.random()
        axis = comp if r < 0.5 else (("Y" if comp == "X" else "X") if r < 0.7 else rng.choice([["X", "Y"], ["Y", "X"]]))
        if rng.random() < 0.15:
            opname = rng.choice(["diff_2d_vector", "interp_2d_vector"])
            kw.pop("keep_coords", None)
            axis = None
        spec["op"] = {"name": opname, "axis": axis, "kw": kw}
        allowed = set(pre)
        spec["chunks"] = gen_chunks(rng, spec["input"]["dims"], sizes, allowed)
        spec["chunks2"] = dict(spec["chunks"]) if rng.random() < 0.6 else gen_chunks(rng, spec["input2"]["dims"], sizes, allowed)
    if rng.random() < 0.2:
        # a user grid ufunc with a halo on both axes at once (reads the halo corner cells)
        uaxes = rng.choice([["X", "Y"], ["Y", "X"]])
        vec = rng.random() < 0.3
        frompos, topos, bw, weights = {}, {}, {}, []
        comp = rng.choice(["X", "Y"])
        for i, a in enumerate(uaxes):
            if vec:
                fp = other if a == comp else "center"
            else:
                fp = rng.choice(list(axes[a]["pos"]))
            tp = rng.choice(list(axes[a]["pos"]))
            l, u = rng.randint(0, 1), rng.randint(0, 1)
            frompos[a], topos[a] = fp, tp
            bw[f"A{i}"] = [l, u]
            weights.append([rng.randint(-2, 3) for _ in range(l + u + 1)])
        cdims = pre + [axes["Y"]["pos"][frompos["Y"]], axes["X"]["pos"][frompos["X"]]]
        if rng.random() < 0.3:
            rng.shuffle(cdims)
        for stale in ("vector", "input2", "chunks2", "pair"):
            spec.pop(stale, None)
        spec["input"] = {"dims": cdims, "data": {"gen": "randint", "seed": rng.randrange(10**6), "lo": -40, "hi": 40},
                         "name": "c"}
        if vec:
            odims = pre + ([axes["Y"]["pos"][other], "xc"] if comp == "X" else ["yc", axes["X"]["pos"][other]])
            spec["input2"] = {"dims": odims, "data": {"gen": "randint", "seed": rng.randrange(10**6), "lo": -40, "hi": 40},
                              "name": "o"}
            spec["vector"] = {"axis": comp, "other_axis": "Y" if comp == "X" else "X"}
        in_arg = ",".join(f"A{i}:{frompos[a]}" for i, a in enumerate(uaxes))
        out_arg = ",".join(f"A{i}:{topos[a]}" for i, a in enumerate(uaxes))
        mode = rng.choice([("parallelized", False), ("allowed", True)])
        items = list(bw.items())
        if rng.random() < 0.5:
            items.reverse()
        ukw = {"axis": [list(uaxes)], "signature": f"({in_arg})->({out_arg})", "boundary_width": dict(items),
               "dask": mode[0], "map_overlap": mode[1]}
        ukw.update({k2: v for k2, v in kw.items() if k2 != "keep_coords"})
        spec["op"] = {"name": "ufunc", "via": rng.choice(["apply", "decorator"]), "weights": weights, "kw": ukw, "nin": 1,
                      "frompos": frompos, "topos": topos}
        spec["chunks"] = gen_chunks(rng, cdims, sizes, set(pre))
        if vec:
            spec["chunks2"] = gen_chunks(rng, spec["input2"]["dims"], sizes, set(pre))
    elif not vector:
        posx = rng.choice(list(axes["X"]["pos"]))
        posy = rng.choice(list(axes["Y"]["pos"]))
        dims = pre + [axes["Y"]["pos"][posy], axes["X"]["pos"][posx]]
        if rng.random() < 0.3:
            rng.shuffle(dims)
        data = {"gen": "randint", "seed": rng.randrange(10**6), "lo": -40, "hi": 40}
        if rng.random() < 0.1:
            data["nan_seed"] = rng.randrange(10**6)
        spec["input"] = {"dims": dims, "data": data, "name": "c"}
        axis = rng.choice(["X", "Y", ["X", "Y"], ["Y", "X"], ["X"]])
        if rng.random() < 0.12:
            opname = "cumsum"
            kw.pop("keep_coords", None)
        spec["op"] = {"name": opname, "axis": axis, "kw": kw}
        spec["chunks"] = gen_chunks(rng, dims, sizes, set(pre))
        if rng.random() < 0.2:
            other_op = rng.choice([o for o in STENCIL_OPS if o != opname])
            spec["pair"] = {"name": other_op, "axis": axis,
                            "kw": {k: v for k, v in kw.items() if k in ("boundary", "fill_value")}}
            if rng.random() < 0.5:
                spec["pair"] = {"name": opname, "axis": axis, "kw": dict(kw), "data_seed": rng.randrange(10**6)}
    spec["lazy_ds"] = None
    return spec


def gen_schedules(rng, tier, n=None):
    n = n or (3 if tier == "quick" else 8)
    scheds = [{"policy": "real-sync"}]
    for j in range(n - 1):
        faults = {}
        if rng.random() < 0.5:
            faults["dup"] = rng.choice([0.1, 0.25, 0.5])
        if rng.random() < 0.4:
            faults["evict"] = rng.choice([0.05, 0.15, 0.3])
        if rng.random() < 0.5:
            faults["ro"] = True
        if rng.random() < 0.3:
            faults["copy"] = True
        if rng.random() < 0.35:
            faults["conc"] = rng.choice([0.3, 0.6, 1.0])
        scheds.append({"policy": rng.choice(POLICIES), "seed": rng.randrange(2**31), "faults": faults,
                       "fuse": rng.random() < 0.5})
    return scheds


def make_case(seed_i, tier):
    rng = core.stream(seed_i, "workload")
    spec = gen_face_case(rng, tier) if rng.random() < 0.3 else gen_simple_case(rng, tier)
    spec["schedules"] = gen_schedules(core.stream(seed_i, "schedule"), tier)
    if "b" in (spec["gspec"].get("extra") or {}):
        # size-dependent code paths matter where tasks can meet: run the big-block cases with concurrent task pairs
        r = core.stream(seed_i, "bulk")
        for sc in spec["schedules"][1:]:
            if r.random() < 0.8:
                sc.setdefault("faults", {})["conc"] = 1.0
    spec["slice_probe"] = core.derive(seed_i, "slice") % 10**9
    return spec


# ---------------------------------------------------------------- executor
def _jsonkw(kw, bw_list=False):
    out = {}
    for k, v in kw.items():
        if k == "boundary_width":
            # (widths are usually spelled as tuples; lists are accepted as well)
            out[k] = {a: (list(w) if bw_list else tuple(w)) for a, w in v.items()}
        elif k == "axis" and isinstance(v, list) and v and isinstance(v[0], list):
            out[k] = [tuple(a) for a in v]
        elif k == "to" and isinstance(v, dict):
            out[k] = dict(v)
        else:
            out[k] = copy.deepcopy(v)
    return out


def call_op(grid, op, da, da2=None, vector=None, eager=False):
    import xgcm
    from xgcm.grid_ufunc import as_grid_ufunc

    name = op["name"]
    kw = _jsonkw(op.get("kw", {}), bw_list=bool(op.get("bw_list")))
    if eager:
        # "the same operation on the same data held in memory": the dask
        # execution options do not apply to in-memory data
        kw.pop("dask", None)
        kw.pop("map_overlap", None)
    if name == "ufunc":
        weights = op["weights"]
        func = make_stencil(weights, op.get("nout", 1), strict=bool(op.get("strict")))
        args = [da] + ([da2] if op.get("nin", 1) == 2 else [])
        if vector:
            args = [{vector["axis"]: da}]
            kw["other_component"] = {vector["other_axis"]: da2}
        if op.get("func_kw"):
            # (forwarded to xarray.apply_ufunc, whose `kwargs` are handed to the user function)
            kw["kwargs"] = dict(op["func_kw"])
        if op.get("via") == "decorator":
            deco_kw = {k: kw.pop(k) for k in ("signature", "boundary_width") if k in kw}
            for k in ("dask", "map_overlap"):
                if k in kw:
                    deco_kw[k] = kw.pop(k)
            gu = as_grid_ufunc(**deco_kw)(func)
            return gu(grid, *args, **kw)
        return grid.apply_as_grid_ufunc(func, *args, **kw)
    if vector:
        if name in ("diff_2d_vector", "interp_2d_vector"):
            vec = {vector["axis"]: da, vector["other_axis"]: da2}
            if vector["axis"] == "Y":
                vec = {vector["other_axis"]: da2, vector["axis"]: da}
            return getattr(grid, name)(vec, **kw)
        return getattr(grid, name)({vector["axis"]: da}, op["axis"], other_component={vector["other_axis"]: da2}, **kw)
    if name == "interp_like":
        return grid.interp_like(da, da2, **kw)
    return getattr(grid, name)(da, op["axis"], **kw)


def build_inputs(spec, ds):
    sizes = dict(ds.sizes)
    da = worlds.attach_coords(worlds.build_da(sizes, spec["input"]), ds)
    ec = spec["input"].get("extra_coords")
    if ec:
        d = ec["along"] if ec["along"] in da.dims else da.dims[0]
        da = da.assign_coords(time0=ec["scalar"], **{"row_id": (d, np.arange(sizes[d]) * 10.0)})
    da2 = None
    if spec.get("input2"):
        da2 = worlds.attach_coords(worlds.build_da(sizes, spec["input2"]), ds)
    return da, da2


def snap_result(res):
    """comparable description of a result (DataArray / dict / tuple)"""
    if isinstance(res, xr.DataArray):
        vals = np.asarray(res.values)
        coords = {}
        for n, c in res.coords.items():
            coords[str(n)] = (tuple(c.dims), core.array_digest(np.asarray(c.values)), sorted((str(k), repr(v)) for k, v in c.attrs.items()))
        return {"dims": tuple(res.dims), "dtype": str(vals.dtype), "shape": tuple(vals.shape),
                "values": _Vals(vals), "coords": coords,
                "name": res.name, "attrs": sorted((str(k), repr(v)) for k, v in res.attrs.items())}
    if isinstance(res, dict):
        return {"dict": {k: snap_result(v) for k, v in res.items()}}
    if isinstance(res, (tuple, list)):
        return {"seq": [snap_result(v) for v in res]}
    return {"other": repr(res)}


class _Vals:
    """Array values compared up to floating-point reassociation.

    Chunked reductions (dask cumsum / sum) add in another order than numpy.
    With integer-valued data and dyadic metrics every intermediate is exact,
    but a metric *interpolated* between two dyadic values (e.g. (4+1)/2 = 2.5)
    makes a division inexact, and a later chunked cumsum of such values differs
    from the in-memory one in the last bits.  That is not a different answer:
    values are compared with a relative tolerance of 1e-10 (float32: 1e-4),
    NaN placement, shape and dtype exactly."""

    def __init__(self, a):
        self.a = np.asarray(a)

    def __eq__(self, other):
        a, b = self.a, other.a
        if a.shape != b.shape or a.dtype != b.dtype:
            return False
        if a.dtype.kind != "f":
            return bool(np.array_equal(a, b))
        na, nb = np.isnan(a), np.isnan(b)
        if not np.array_equal(na, nb):
            return False
        if not np.array_equal(np.isinf(a), np.isinf(b)):
            return False
        if a.size == 0:
            return True
        fin = np.isfinite(a) & np.isfinite(b)
        if not np.array_equal(a[~fin & ~na], b[~fin & ~nb]):
            return False
        rtol = 1e-4 if a.dtype == np.float32 else 1e-10
        scale = float(np.max(np.abs(a[fin]))) if fin.any() else 0.0
        return bool(np.all(np.abs(a[fin] - b[fin]) <= rtol * (np.abs(a[fin]) + scale)))

    def __ne__(self, other):
        return not self.__eq__(other)

    def __repr__(self):
        return np.array2string(self.a, threshold=40, precision=6).replace("\n", " ")


def first_diff(a, b):
    if isinstance(a, dict) and isinstance(b, dict):
        if "dims" in a and "dims" in b:
            for k in ("dims", "shape", "dtype", "values", "name", "attrs"):
                if a[k] != b[k]:
                    return k
            if set(a["coords"]) != set(b["coords"]):
                return "coords"
            for n in a["coords"]:
                if a["coords"][n] != b["coords"][n]:
                    return "coords"
            return None
        for k in a:
            if k not in b:
                return "structure"
            sub_a, sub_b = a[k], b[k]
            if isinstance(sub_a, dict):
                for kk in sub_a:
                    if kk not in sub_b:
                        return "structure"
                    d = first_diff(sub_a[kk], sub_b[kk])
                    if d:
                        return d
            elif isinstance(sub_a, list):
                if len(sub_a) != len(sub_b):
                    return "structure"
                for x, y in zip(sub_a, sub_b):
                    d = first_diff(x, y)
                    if d:
                        return d
            elif sub_a != sub_b:
                return "other"
        return None
    return None if a == b else "other"


def is_lazy(res):
    import dask.array as dsa

    if isinstance(res, xr.DataArray):
        return isinstance(res.data, dsa.Array)
    if isinstance(res, dict):
        return all(is_lazy(v) for v in res.values())
    if isinstance(res, (tuple, list)):
        return all(is_lazy(v) for v in res)
    return False


def compute_all(objs):
    import dask

    flat, shape = [], []

    def walk(o):
        if isinstance(o, xr.DataArray):
            flat.append(o)
            return ("da", len(flat) - 1)
        if isinstance(o, dict):
            return ("dict", {k: walk(v) for k, v in o.items()})
        if isinstance(o, (tuple, list)):
            return ("seq", [walk(v) for v in o])
        return ("lit", o)

    tree = [walk(o) for o in objs]
    comp = dask.compute(*flat)

    def unwalk(t):
        if t[0] == "da":
            return comp[t[1]]
        if t[0] == "dict":
            return {k: unwalk(v) for k, v in t[1].items()}
        if t[0] == "seq":
            return tuple(unwalk(v) for v in t[1])
        return t[1]

    return [unwalk(t) for t in tree]


def exempt_condition(spec):
    """True iff the property's single exemption applies to this case (evaluated
    from the spec, never from an error message)."""
    gs = spec["gspec"]
    op = spec["op"]
    dap = worlds.dim_axis_pos(gs)
    chunks = spec.get("chunks") or {}
    chunks2 = spec.get("chunks2") or {}

    def chunked(d):
        return len(chunks.get(d, [1])) > 1 or len(chunks2.get(d, [1])) > 1

    uses_metrics = op["name"] in METRIC_OPS or "metric_weighted" in op.get("kw", {})
    lazy_ds = spec.get("lazy_ds") or {}
    if uses_metrics and lazy_ds:
        for a, ax in gs["axes"].items():
            if any(p in ("inner", "outer") for p in ax["pos"]):
                for p, d in ax["pos"].items():
                    if chunked(d) or len(lazy_ds.get(d, [1])) > 1:
                        return True
    if op["name"] == "ufunc":
        for a in op["frompos"]:
            fp, tp = op["frompos"][a], op["topos"][a]
            d = gs["axes"][a]["pos"][fp]
            if chunked(d) and (fp in ("inner", "outer") or tp in ("inner", "outer")):
                return True
        # the refusal is per signature: one inner/outer position anywhere in a
        # signature whose (other) core dim is chunked is the same situation
        anyio = any(p in ("inner", "outer") for p in list(op["frompos"].values()) + list(op["topos"].values()))
        anych = any(chunked(gs["axes"][a]["pos"][op["frompos"][a]]) for a in op["frompos"])
        return anyio and anych
    axes = op.get("axis")
    if axes is None:
        return False
    axes = [axes] if isinstance(axes, str) else list(axes)
    to = op.get("kw", {}).get("to")
    if op["name"] == "interp_like":
        to = op["like_to"]
    for a in axes:
        if a not in gs["axes"]:
            continue
        ax = gs["axes"][a]
        fd = [d for d in spec["input"]["dims"] if d in ax["pos"].values()]
        if len(fd) != 1:
            continue
        fp = dap[fd[0]][1]
        tp = to.get(a) if isinstance(to, dict) else to
        if tp is None:
            from xgcm.axis import FALLBACK_SHIFTS

            # `to` not given: the Grid's default shift for this position (explicit, else the fallback order)
            tp = ((gs.get("grid") or {}).get("default_shifts") or {}).get(a, {}).get(fp)
            if tp is None:
                tp = next((p for p in FALLBACK_SHIFTS[fp] if p in ax["pos"]), None)
        if chunked(fd[0]) and (fp in ("inner", "outer") or tp in ("inner", "outer")):
            return True
    return False


def features(spec):
    op = spec["op"]
    f = [spec["kind"], "vector" if spec.get("vector") else "scalar"]
    if op["name"] == "ufunc":
        gs = spec["gspec"]
        kw = op["kw"]
        f.append("mo" if kw.get("map_overlap") else "nomo")
        chunks = spec.get("chunks") or {}
        chunks2 = spec.get("chunks2")
        sub = []
        if op.get("nout", 1) > 1:
            sub.append("several-outputs")
        dummy = {f"A{i}": a for i, a in enumerate(op["frompos"])}
        for dn, (l, u) in (kw.get("boundary_width") or {}).items():
            a = dummy[dn]
            if max(l, u) > gs["axes"][a]["n"] + worlds.POS_LEN[op["frompos"][a]]:
                sub.append("width-exceeds-length")
        if kw.get("map_overlap"):
            for dn, (l, u) in kw["boundary_width"].items():
                a = dummy[dn]
                d = gs["axes"][a]["pos"][op["frompos"][a]]
                for ch in (chunks.get(d), (chunks2 or {}).get(d)):
                    if ch and len(ch) > 1 and (max(l, u) > min(ch)):
                        sub.append("width-exceeds-chunk")
            if op.get("nin") == 2 and spec.get("input2"):
                d1, d2 = list(spec["input"]["dims"]), list(spec["input2"]["dims"])
                common = [d for d in d1 if d in d2]
                if chunks2 is not None and any(list(chunks.get(d, [])) != list(chunks2.get(d, [])) for d in common):
                    sub.append("chunks-differ")
                if len(d1) != len(d2):
                    sub.append("ndim-differ")
        f.append("+".join(sorted(set(sub))) or "plain")
    return "/".join(f)


class Counters:
    def __init__(self):
        self.c = {"cases": 0, "eager_refused": 0, "exempt_refusals": 0, "exempt_answered": 0,
                  "lazy_builds": 0, "computes": 0, "tasks_executed": 0, "choice_points": 0,
                  "max_ready_seen": 0, "label_collisions": 0, "shared_computes": 0,
                  "multi_chunk_cases": 0, "hazard_reruns": 0, "lazy_ds_cases": 0, "slice_probes": 0}
        self.fired = {}
        self.graph_shapes = set()
        self.orders = set()
        self.policies = {}
        self.opnames = {}


def run_case(spec, cnt=None):
    """Returns (violation or None, info dict)."""
    with DeterministicUUID(core.derive("uuid", core.digest(spec))) as du:
        v, info = _run_case(spec, cnt)
    info["uuid_calls"] = du.calls
    return v, info


def _run_case(spec, cnt=None):
    import dask
    import xgcm

    cnt = cnt or Counters()
    cnt.c["cases"] += 1
    info = {"nontrivial": False, "outcome": None, "orders": []}
    gs = spec["gspec"]
    op = spec["op"]
    cnt.opnames[op["name"]] = cnt.opnames.get(op["name"], 0) + 1
    feat = features(spec)
    with warnings.catch_warnings():
        warnings.simplefilter("ignore")
        ds = worlds.build_ds(gs)
        try:
            grid = worlds.build_grid(ds, gs)
        except Exception as e:  # noqa  (ill-formed world: both refused)
            info["outcome"] = "grid-ctor:" + type(e).__name__
            cnt.c["eager_refused"] += 1
            return None, info
        da, da2 = build_inputs(spec, ds)
        da_p = da
        if spec.get("pair") and spec["pair"].get("data_seed") is not None:
            alt = copy.deepcopy(spec["input"])
            alt["data"] = dict(alt["data"], gen="randint", seed=spec["pair"]["data_seed"])
            da_p = worlds.attach_coords(worlds.build_da(dict(ds.sizes), alt), ds)
        # ---- eager
        eager_exc = None
        try:
            eager = [call_op(grid, op, da, da2, spec.get("vector"), eager=True)]
            if spec.get("then"):
                eager.append(call_op(grid, spec["then"], eager[0], eager=True))
            if spec.get("pair"):
                eager.append(call_op(grid, spec["pair"], da_p, da2, spec.get("vector"), eager=True))
            eager = compute_all(eager)  # (transform-style ops may return dask even eagerly)
            eager_snap = [snap_result(r) for r in eager]
        except Exception as e:  # noqa
            eager_exc = e
        # ---- lazy inputs
        chunks = {d: tuple(c) for d, c in (spec.get("chunks") or {}).items()}
        lda = da.chunk(chunks) if chunks is not None else da.chunk()
        if spec.get("data_in_memory"):
            lda = da
        lda_p = lda if da_p is da else da_p.chunk(chunks)
        lda2 = None
        if da2 is not None:
            ch2 = {d: tuple(c) for d, c in (spec.get("chunks2") or {}).items()}
            lda2 = da2.chunk(ch2)
        multi = any(len(c) > 1 for c in chunks.values())
        if multi:
            cnt.c["multi_chunk_cases"] += 1
        lgrid = grid
        if spec.get("lazy_ds"):
            cnt.c["lazy_ds_cases"] += 1
            lds = ds.chunk({d: tuple(c) for d, c in spec["lazy_ds"].items() if d in ds.dims})
            if spec.get("lazy_vars") is not None:
                for vn in gs.get("vars", {}):
                    if vn not in spec["lazy_vars"] and vn in ds.variables:
                        lds = lds.assign_coords({vn: ds[vn]}) if vn in ds.coords else lds.assign({vn: ds[vn]})
            lgrid = worlds.build_grid(lds, gs)
        exempt = exempt_condition(spec)
        # ---- build under the monitor
        build_exc = None
        with BuildMonitor() as bm:
            try:
                lazy = [call_op(lgrid, op, lda, lda2, spec.get("vector"))]
                if spec.get("then"):
                    # from here on a refusal is judged by the situation of the second operation
                    exempt = exempt_condition(then_virtual_spec(spec, lazy[0]))
                    op = spec["then"]
                    feat = feat + "/chained"
                    lazy.append(call_op(lgrid, spec["then"], lazy[0]))
                    op = spec["op"]
                    exempt = exempt or exempt_condition(spec)
                if spec.get("pair"):
                    lazy.append(call_op(lgrid, spec["pair"], lda_p, lda2, spec.get("vector")))
            except Exception as e:  # noqa
                build_exc = e
        cnt.c["lazy_builds"] += 1
        if eager_exc is not None:
            cnt.c["eager_refused"] += 1
            info["outcome"] = "both-refused" if build_exc is not None else "eager-refused"
            if build_exc is None:
                # lazy must raise too, at compute at the latest
                try:
                    with dask.config.set(scheduler="synchronous"):
                        compute_all(lazy)
                    if not exempt:
                        return ({"fingerprint": f"C06/V3-lazy-answers-where-eager-refuses/{op['name']}/{type(eager_exc).__name__}/{feat}",
                                 "detail": f"in-memory call raises {type(eager_exc).__name__}: {str(eager_exc)[:200]} but the lazy call returns a result",
                                 "schedule": None}, info)
                except Exception:  # noqa
                    info["outcome"] = "both-refused"
            return None, info
        if bm.count:
            return ({"fingerprint": f"C06/V1-compute-during-build/{op['name']}/{feat}",
                     "detail": f"building the lazy result triggered {bm.count} computation(s): {bm.where[:3]}",
                     "schedule": None}, info)
        if build_exc is not None:
            if isinstance(build_exc, NotImplementedError) and exempt:
                cnt.c["exempt_refusals"] += 1
                info["outcome"] = "exempt-refusal"
                return None, info
            return ({"fingerprint": f"C06/V3-refused/build/{type(build_exc).__name__}/{op['name']}/{feat}",
                     "detail": f"in-memory call returns, lazy call raises at build: {type(build_exc).__name__}: {str(build_exc)[:300]}"
                               + (" [NotImplementedError outside the exempt situation]" if isinstance(build_exc, NotImplementedError) else ""),
                     "schedule": None}, info)
        if exempt:
            cnt.c["exempt_answered"] += 1
        # (in-memory data on a partially lazy grid dataset: whether anything lazy takes part depends on which metric
        # the call picks, so laziness of the result is not required there)
        if not all(is_lazy(r) for r in lazy) and not (spec.get("data_in_memory") and spec.get("lazy_vars") is not None):
            return ({"fingerprint": f"C06/V2-not-lazy/{op['name']}/{feat}",
                     "detail": "result of an operation on dask-backed input is not dask-backed",
                     "schedule": None}, info)
        if spec.get("pair"):
            cnt.c["shared_computes"] += 1
        if spec.get("then"):
            cnt.c["chained_cases"] = cnt.c.get("chained_cases", 0) + 1
        # ---- compute under each schedule
        had_choice = False
        scheds = list(spec["schedules"])
        si = 0
        forced = False
        while si < len(scheds):
            sc = scheds[si]
            sim = None
            exc = None
            try:
                if sc["policy"] == "real-sync":
                    with dask.config.set(scheduler="synchronous"):
                        got = compute_all(lazy)
                else:
                    sim = SimScheduler(seed=sc["seed"], policy=sc["policy"], faults=_with_watch(sc.get("faults")))
                    cfg = {"scheduler": sim}
                    if not sc.get("fuse", True):
                        cfg["optimization.fuse.active"] = False
                    with dask.config.set(cfg):
                        got = compute_all(lazy)
            except Exception as e:  # noqa
                exc = e
            cnt.c["computes"] += 1
            cnt.policies[sc["policy"]] = cnt.policies.get(sc["policy"], 0) + 1
            if sim is not None:
                cnt.c["tasks_executed"] += sim.tasks_executed
                cnt.c["choice_points"] += sim.choice_points
                cnt.c["max_ready_seen"] = max(cnt.c["max_ready_seen"], sim.max_ready)
                cnt.c["label_collisions"] += sim.label_collisions
                for k, v in sim.fired.items():
                    cnt.fired[k] = cnt.fired.get(k, 0) + v
                cnt.graph_shapes.update(sim.graph_shapes)
                cnt.orders.add(sim.digest())
                info["orders"].append(sim.digest())
                if sim.max_ready >= 2:
                    had_choice = True
            schedtxt = _sched_text(sc)
            if exc is not None:
                if isinstance(exc, RuntimeError) and "harness bug" in str(exc):
                    raise exc
                fk = _fault_class(sc)
                return ({"fingerprint": f"C06/V4-compute-raises/{type(exc).__name__}/{op['name']}/{feat}/{fk}",
                         "detail": f"computing the lazy result under schedule [{schedtxt}] raised {type(exc).__name__}: {str(exc)[:300]}",
                         "schedule": si}, info)
            got_snap = [snap_result(r) for r in got]
            for ri, (gsn, esn) in enumerate(zip(got_snap, eager_snap)):
                d = first_diff(esn, gsn)
                if d:
                    fk = _fault_class(sc)
                    which = op["name"] if ri == 0 else (spec["then"]["name"] + "(chained)" if spec.get("then") else spec["pair"]["name"] + "(paired)")
                    return ({"fingerprint": f"C06/V5-differs/{d}/{which}/{feat}/{fk}",
                             "detail": f"lazy result of {which} computed under schedule [{schedtxt}] differs from the in-memory result in {d}: "
                                       f"eager {_short(esn, d)} vs lazy {_short(gsn, d)}",
                             "schedule": si}, info)
            if sim is not None and (sim.fired["hazard_mutated_result"] or sim.fired["dup_mismatch"]) and not forced:
                # latent hazard: a stored chunk changed after it was produced, or a re-executed
                # task gave another answer.  Turn it into a concrete failure: F1 + F3 forced.
                forced = True
                cnt.c["hazard_reruns"] += 1
                scheds.append({"policy": "random", "seed": sc["seed"], "faults": {"dup": 1.0, "ro": True}, "fuse": sc.get("fuse", True),
                               "forced_after_hazard": True})
            si += 1
        # ---- slice probe: a window of the lazy result computed on its own must equal the
        # same window of the in-memory result (a result whose declared chunks do not match
        # its real blocks computes correctly as a whole but not in part)
        probe = spec.get("slice_probe")
        if probe is not None and isinstance(lazy[0], xr.DataArray) and isinstance(eager[0], xr.DataArray):
            r = core.stream(probe, "slices")
            sl = {}
            for d, n in zip(lazy[0].dims, lazy[0].shape):
                if n >= 2 and r.random() < 0.7:
                    a = r.randrange(0, n - 1)
                    b = r.randrange(a + 1, n + 1)
                    sl[d] = slice(a, b)
            if sl:
                cnt.c["slice_probes"] = cnt.c.get("slice_probes", 0) + 1
                try:
                    with dask.config.set(scheduler="synchronous"):
                        part = lazy[0].isel(sl).compute()
                except Exception as e:  # noqa
                    return ({"fingerprint": f"C06/V4-compute-raises/{type(e).__name__}/{op['name']}/{feat}/slice-probe",
                             "detail": f"computing the window {sl} of the lazy result raised {type(e).__name__}: {str(e)[:300]}",
                             "schedule": None}, info)
                d = first_diff(snap_result(eager[0].isel(sl)), snap_result(part))
                if d:
                    return ({"fingerprint": f"C06/V5-differs/{d}/{op['name']}/{feat}/slice-probe",
                             "detail": f"the window {sl} of the lazy result, computed on its own, differs from the same window of the "
                                       f"in-memory result in {d} although the full result agrees (declared chunks vs real blocks)",
                             "schedule": None}, info)
        info["outcome"] = "agree"
        info["nontrivial"] = bool(multi and had_choice)
        return None, info


def _with_watch(faults):
    """source files whose lines are pre-emption points for F7 (xgcm itself and the generated user ufuncs)"""
    import os

    import xgcm

    f = dict(faults or {})
    if f.get("conc"):
        f["watch"] = [os.path.dirname(os.path.abspath(xgcm.__file__)) + os.sep, os.path.abspath(__file__)]
    return f


def _short(sn, d):
    if "dims" in sn:
        return repr(sn.get(d))[:160]
    return "(nested)"


def _sched_text(sc):
    if sc["policy"] == "real-sync":
        return "real synchronous dask scheduler"
    return f"policy={sc['policy']} seed={sc['seed']} faults={sc.get('faults')} fuse={sc.get('fuse', True)}"


def _fault_class(sc):
    if sc["policy"] == "real-sync":
        return "any-schedule"
    f = sc.get("faults") or {}
    act = [k for k in ("dup", "evict", "ro", "copy", "conc") if f.get(k)]
    return "faults:" + ("+".join(act) if act else "none")


# ------------------------------------------------------------ minimisation
def fit_chunks(ch, n):
    out, tot = [], 0
    for c in ch:
        if tot + c >= n:
            out.append(n - tot)
            tot = n
            break
        out.append(c)
        tot += c
    if tot < n:
        out.append(n - tot)
    return [c for c in out if c > 0] or [n]


def minimise(spec, fingerprint, sched_index):
    budget = [120]

    def norm(fp):
        # the fault class may legitimately get simpler while shrinking
        return fp.rsplit("/", 1)[0] if "/faults:" in fp or fp.endswith("/any-schedule") else fp

    target = norm(fingerprint)

    t_end = time.time() + 40.0

    def test(s):
        if time.time() > t_end:
            # wall cap on shrinking (big-block cases take seconds per run): whatever has been reached so far is
            # still a failing, replayable case
            budget[0] = 0
            return False
        v, _ = run_case(s)
        return bool(v) and norm(v["fingerprint"]) == target

    s = copy.deepcopy(spec)
    if sched_index is not None and sched_index < len(s["schedules"]):
        t = copy.deepcopy(s)
        t["schedules"] = [s["schedules"][sched_index]]
        budget[0] -= 1
        if test(t):
            s = t

    def cands(s):
        # faults off one at a time, policy simplification
        for i, sc in enumerate(s["schedules"]):
            if sc["policy"] == "real-sync":
                continue
            for k in list((sc.get("faults") or {})):
                t = copy.deepcopy(s)
                del t["schedules"][i]["faults"][k]
                yield t
            if sc["policy"] != "fifo":
                t = copy.deepcopy(s)
                t["schedules"][i]["policy"] = "fifo"
                yield t
            if not (sc.get("faults")):
                t = copy.deepcopy(s)
                t["schedules"][i] = {"policy": "real-sync"}
                yield t
        if s.get("pair"):
            t = copy.deepcopy(s)
            t.pop("pair")
            yield t
        if s.get("then"):
            t = copy.deepcopy(s)
            t.pop("then")
            yield t
        if s.get("lazy_ds"):
            t = copy.deepcopy(s)
            t["lazy_ds"] = None
            yield t
        for key in ("chunks", "chunks2"):
            for d, c in (s.get(key) or {}).items():
                if len(c) > 1:
                    t = copy.deepcopy(s)
                    t[key][d] = [sum(c)]
                    yield t
                    if len(c) > 2:
                        t = copy.deepcopy(s)
                        t[key][d] = [c[0], sum(c[1:])]
                        yield t
        # drop extra dims
        for d in list((s["gspec"].get("extra") or {})):
            t = copy.deepcopy(s)
            del t["gspec"]["extra"][d]
            for key in ("input", "input2"):
                if t.get(key):
                    t[key]["dims"] = [x for x in t[key]["dims"] if x != d]
            for key in ("chunks", "chunks2", "lazy_ds"):
                if t.get(key):
                    t[key].pop(d, None)
            yield t
        # drop kwargs
        for k in list(s["op"].get("kw", {})):
            if k in ("axis", "signature", "boundary_width", "dask", "map_overlap"):
                continue
            t = copy.deepcopy(s)
            del t["op"]["kw"][k]
            yield t
        # simpler data
        for key in ("input", "input2"):
            if s.get(key) and s[key]["data"].get("gen") != "arange":
                t = copy.deepcopy(s)
                t[key]["data"] = {"gen": "arange"}
                yield t
        # smaller axes
        for a, ax in s["gspec"]["axes"].items():
            if ax["n"] > 2 and not s["gspec"].get("face"):
                t = copy.deepcopy(s)
                t["gspec"]["axes"][a]["n"] = ax["n"] - 1
                sizes = worlds.dim_sizes(t["gspec"])
                for key in ("chunks", "chunks2", "lazy_ds"):
                    if t.get(key):
                        for d in list(t[key]):
                            if d in sizes:
                                t[key][d] = fit_chunks(t[key][d], sizes[d])
                yield t

    s = core.greedy(s, cands, test, budget)
    return s, 120 - budget[0]


# ------------------------------------------------------------------ engine
class Engine:
    prop = "C06"

    def __init__(self):
        self.cnt = Counters()
        self.nsamples = 0
        self.minimised = set()

    def run(self, i, seed_i, tier):
        spec = make_case(seed_i, tier)
        v, info = run_case(spec, self.cnt)
        shape = core.digest([spec["kind"], spec["op"]["name"], spec["op"].get("axis"),
                             sorted((spec["op"].get("kw") or {})), spec["input"]["dims"],
                             spec.get("chunks"), spec.get("chunks2"), bool(spec.get("lazy_ds")),
                             {a: sorted(ax["pos"]) for a, ax in spec["gspec"]["axes"].items()},
                             (spec["op"].get("kw") or {}).get("to"),
                             [spec["then"]["name"], spec["then"]["axis"], spec["then"]["kw"].get("to")] if spec.get("then") else None], 12)
        rec = {"d": core.digest([spec, info["outcome"], info["orders"], v["fingerprint"] if v else None]),
               "nt": info["nontrivial"], "shape": shape, "viol": None}
        if v:
            if v["fingerprint"] not in self.minimised:
                self.minimised.add(v["fingerprint"])
                mspec, used = minimise(spec, v["fingerprint"], v.get("schedule"))
                v2, _ = run_case(mspec)
            else:
                mspec, used, v2 = spec, None, v
            v2 = v2 or v
            rec["viol"] = {"fingerprint": v2["fingerprint"], "spec": mspec, "detail": v2["detail"],
                           "min_steps": used}
        if self.nsamples < 2 and i % 9 == 0 and info["outcome"] == "agree":
            self.nsamples += 1
            rec["sample"] = {k: spec[k] for k in ("kind", "op", "input", "chunks", "lazy_ds", "schedules") if k in spec}
            rec["sample"]["axes"] = spec["gspec"]["axes"]
        return rec

    def stats(self):
        d = dict(self.cnt.c)
        d["faults_fired"] = dict(self.cnt.fired)
        d["distinct_graph_shapes"] = sorted(self.cnt.graph_shapes)
        d["distinct_execution_orders"] = sorted(self.cnt.orders)
        d["policies"] = dict(self.cnt.policies)
        d["op_names"] = dict(self.cnt.opnames)
        return d


def replay(spec):
    v, _ = run_case(spec)
    return v


def merge_stats(lst):
    out = core.merge_stats(lst)
    out["max_ready_seen"] = max([s.get("max_ready_seen", 0) for s in lst] or [0])
    return out


def warnings_from_stats(stats):
    w = []
    for k in ("dup", "evict", "recompute", "ro_delivery", "copy_delivery"):
        if not (stats.get("faults_fired") or {}).get(k):
            w.append(f"fault kind {k} never fired in this batch")
    return w


RULE = (
    "Each run generates one case: a simple grid (1-3 axes, each with center plus a random subset of "
    "left/right/inner/outer, 2-7 (thorough 2-9) cells, 0-2 extra dimensions, per-axis boundary rules and fill "
    "values, optional dyadic metrics incl. metrics that vary along other axes, optional non-index coordinates) or a "
    "face-connected grid (2-6 faces of NxN cells; cubed sphere, KxxKy tilings or a random reciprocal link table with "
    "axis swaps and reversals, 40% written sparsely), integer-valued float64/float32 data (optionally with NaNs, "
    "optionally carrying a scalar and a non-index coordinate the grid dataset does not know) in a random dimension "
    "order, an operation (diff/interp/min/max over 1-3 axes with all valid shifts, cumsum, derivative, integrate, "
    "average, cumint, interp_like, metric_weighted, user grid ufuncs with 1-2 inputs, 1-2 axes and generated integer stencils via "
    "apply_as_grid_ufunc or as_grid_ufunc with and without map_overlap, with boundary_width listed in any order and (30%) "
    "with extra keyword arguments for the user function, "
    "two-axis user ufuncs on face-connected grids, vector components with other_component, diff_2d_vector/"
    "interp_2d_vector), and an independent random composition of every dimension length into chunks (face grids: face "
    "and non-spatial dimensions only); the grid dataset is chunked too, independently of the data, in half of the "
    "metric cases and in a dedicated family of metric-aware multi-axis operations. The op is run eagerly, built lazily "
    "under a monitor (0 computations allowed through the configured scheduler, dask.local.get_sync, dask.threaded.get "
    "or the named-scheduler table; result must be dask-backed), and computed under 3 (thorough 8) schedules: the real "
    "synchronous scheduler plus simulated schedules (policy in dask-order/random/lifo/fifo/reverse-priority/"
    "boundary-last; faults: duplicate execution, evict+recompute, read-only delivery, copy delivery, concurrent task "
    "pairs interleaved at line granularity; fusion on/off); 30% of the stencil cases compute a second result (other "
    "op, same op on other data, same op with other kwargs) in the same graph, 18% apply a second operation to the lazy "
    "result of the first (chained; both results computed in one graph); finally a random window of the lazy "
    "result is computed on its own. Every computed result must equal the eager one (values up to 1e-10 relative, NaN "
    "placement, dims order, dtype, coords, name, attrs exactly). Non-trivial = some dimension has > 1 chunk and some "
    "schedule had >= 2 ready tasks at once. Distinct = digest of (grid kind, op, axes, kwarg names, `to`, input dim "
    "order, chunk tuples, lazy dataset?, position sets)."
)

COMPONENTS = {
    "real": ["all of xgcm", "xarray", "numpy", "dask graph construction and optimisation, every task function",
             "dask synchronous scheduler (schedule 0 of every case)"],
    "stub": ["dask scheduler: replaced by xsim.dasksim.SimScheduler for the simulated schedules"],
    "absent": ["dask.distributed (its freedoms - arbitrary order, re-execution, read-only / copied buffers - are modelled by the fault kinds)"],
}

ASSUMPTIONS = [
    "the oracle is eager xgcm on the same data, as C06 states; a change that breaks eager and lazy identically is invisible here by construction",
    "integer-valued / dyadic data keep almost every intermediate exact; values are still compared with a relative tolerance of 1e-10 because a metric interpolated between two dyadic values makes a division inexact and chunked reductions re-associate sums",
    "serial schedules plus buffer-delivery faults stand in for concurrent execution: xgcm task functions share no mutable state other than the chunk buffers they are handed",
    "NotImplementedError is accepted only when the exempt condition computed from the case spec holds (input chunked along an operated axis whose shift starts or ends at inner/outer; for metric operations on a lazy grid dataset: any array in play chunked along an axis that owns an inner/outer position)",
    "exploration by seeded sampling, not exhaustive",
]
