"""Engine A: the dask task-graph simulator.

``SimScheduler`` is a dask ``get`` callable (``dask.config.set(scheduler=sim)``).
dask/xarray build and optimise the graph with their real code; the simulator
decides *which ready task runs next* (seeded policy), whether a task runs
again (F1), whether a stored result is evicted and recomputed (F2), and in
which form a consumer receives a producer's chunk (F3 read-only view, F4
copy).  Every decision comes from one PRNG stream; ready sets are sorted by a
*canonical label* so that the schedule does not depend on dask's unstable
key tokens.
"""

import hashlib
import random
import re

import numpy as np

_HEXPART = re.compile(r"[0-9a-f]+")
POLICIES = ["dask-order", "random", "lifo", "fifo", "reverse-priority", "boundary-last"]


class SchedulerInvokedDuringBuild(Exception):
    pass


def _flatten_keys(keys, out):
    if isinstance(keys, list):
        for k in keys:
            _flatten_keys(k, out)
    else:
        out.append(keys)
    return out


def _repack(keys, results):
    if isinstance(keys, list):
        return [_repack(k, results) for k in keys]
    return results[keys]


def _strip(name):
    """Key name without unstable parts.  dask names are '-'-joined words plus
    tokens: 32-hex tokenize() digests, uuid fragments, and - in fused names,
    which are truncated to a fixed length and suffixed with hex(hash(name)) -
    arbitrary hex fragments.  Every '-'-separated part that consists only of
    hex characters and contains a digit is dropped."""
    parts = []
    for p in str(name).split("-"):
        if not p:
            continue
        if _HEXPART.fullmatch(p) and any(c.isdigit() for c in p):
            continue
        parts.append(p)
    return "-".join(parts) + "-#"


def canonical_labels(g):
    """key -> unique canonical id.

    Base label, bottom-up: (token-stripped key prefix, chunk index, sorted
    labels of dependencies).  Then two rounds of refinement that also fold in
    the labels of the dependents, so that nodes which only differ in who
    consumes them get different labels.  Nodes still tied afterwards are
    structurally interchangeable; they get a rank suffix (``~0, ~1``) so that
    ids are unique.  Returns (uid, ncollisions)."""
    labels = {}
    order_index = {k: i for i, k in enumerate(g)}
    state = {}
    for root in g:
        if root in labels:
            continue
        stack = [root]
        while stack:
            k = stack[-1]
            if k in labels:
                stack.pop()
                continue
            deps = [d for d in g[k].dependencies if d in g]
            pending = [d for d in deps if d not in labels]
            if pending and state.get(k) != "expanded":
                state[k] = "expanded"
                stack.extend(pending)
                continue
            if isinstance(k, tuple):
                head = [_strip(k[0])] + [x if isinstance(x, (int, str)) else repr(x) for x in k[1:]]
            else:
                head = [_strip(k)]
            dl = sorted(labels[d] for d in deps if d in labels)
            h = hashlib.sha1(repr((head, dl)).encode()).hexdigest()[:12]
            labels[k] = f"{head[0]}{tuple(head[1:]) if len(head) > 1 else ''}@{h}"
            stack.pop()
    dependents = {k: [] for k in g}
    for k in g:
        for d in g[k].dependencies:
            if d in dependents:
                dependents[d].append(k)
    cur = labels
    nclasses = len(set(cur.values()))
    for _ in range(8):
        if nclasses == len(cur):
            break
        nxt = {}
        for k in g:
            up = sorted(cur[c] for c in dependents[k])
            down = sorted(cur[d] for d in g[k].dependencies if d in cur)
            hh = hashlib.sha1(repr((cur[k], down, up)).encode()).hexdigest()[:12]
            nxt[k] = labels[k].split("@")[0] + "@" + hh
        n2 = len(set(nxt.values()))
        cur = nxt
        if n2 == nclasses:
            break  # stable partition: what is still tied is interchangeable
        nclasses = n2
    groups = {}
    for k in g:
        groups.setdefault(cur[k], []).append(k)
    uid, ncoll = {}, 0
    for lab, ks in groups.items():
        if len(ks) > 1:
            ncoll += len(ks) - 1
            ks.sort(key=lambda k: order_index[k])
        for r, k in enumerate(ks):
            uid[k] = lab if len(ks) == 1 else f"{lab}~{r}"
    return uid, ncoll


def canonical_order(g, uid, deps):
    """dask.order priorities computed on a copy of the graph whose keys are the
    canonical ids (dask.order breaks ties by key, and raw keys carry unstable
    tokens)."""
    from dask.order import order

    def _f(*a):
        return None

    # integer keys: their hashes (hence dask.order's internal set iteration)
    # do not depend on PYTHONHASHSEED
    rank = {k: i for i, k in enumerate(sorted(g, key=lambda k: uid[k]))}
    dsk2 = {}
    for k in sorted(g, key=lambda k: rank[k]):
        dsk2[rank[k]] = (_f,) + tuple(sorted(rank[d] for d in deps[k]))
    pr = order(dsk2)
    return {k: pr[rank[k]] for k in g}


def _checksum(v):
    if isinstance(v, np.ndarray) and v.dtype.kind in "fiub":
        try:
            return hashlib.sha1(np.ascontiguousarray(v).tobytes()).hexdigest()[:12]
        except Exception:
            return None
    return None


def _same(a, b):
    if isinstance(a, np.ndarray) and isinstance(b, np.ndarray):
        if a.shape != b.shape or a.dtype != b.dtype:
            return False
        if a.dtype.kind == "f":
            return bool(np.array_equal(a, b, equal_nan=True))
        return bool(np.array_equal(a, b))
    return True  # non-array intermediates are not compared


MAX_CONC_PAIRS = 400


class Interleaver:
    """F7: run two task functions 'concurrently' with every interleaving decision
    taken by the simulator.  Each function runs in its own real thread, but only
    the thread holding the baton runs: a sys.settrace hook stops the thread at
    every *line event inside the watched source files* (xgcm and the generated
    user ufuncs) and hands the baton back; the seeded PRNG decides who continues.
    Between two line events a thread runs uninterrupted, so one execution is
    exactly repeatable.  This exposes task functions that communicate through
    shared module-level state (scratch buffers, caches) - something a serial
    schedule can never show."""

    def __init__(self, rng, watch_prefixes, max_steps=20000):
        self.rng = rng
        self.watch = tuple(watch_prefixes)
        self.max_steps = max_steps
        self.switches = 0

    def run(self, fns):
        import sys
        import threading

        n = len(fns)
        go = [threading.Event() for _ in range(n)]
        stopped = [threading.Event() for _ in range(n)]
        done = [False] * n
        result = [None] * n
        error = [None] * n
        watch = self.watch

        def make(i):
            def local(frame, event, arg):
                if event == "line":
                    stopped[i].set()
                    go[i].wait()
                    go[i].clear()
                return local

            def tracer(frame, event, arg):
                if frame.f_code.co_filename.startswith(watch):
                    return local
                return None

            def target():
                go[i].wait()
                go[i].clear()
                sys.settrace(tracer)
                try:
                    result[i] = fns[i]()
                except BaseException as e:  # noqa
                    error[i] = e
                finally:
                    sys.settrace(None)
                    done[i] = True
                    stopped[i].set()

            return target

        threads = [threading.Thread(target=make(i), daemon=True) for i in range(n)]
        for t in threads:
            t.start()
        steps = 0
        last = None
        while not all(done):
            steps += 1
            if steps > self.max_steps:
                raise RuntimeError("Interleaver: step cap exceeded (harness bug)")
            alive = [i for i in range(n) if not done[i]]
            i = alive[self.rng.randrange(len(alive))]
            if last is not None and i != last:
                self.switches += 1
            last = i
            stopped[i].clear()
            go[i].set()
            if not stopped[i].wait(timeout=120):
                raise RuntimeError("Interleaver: task thread did not yield (harness bug)")
        for t in threads:
            t.join(timeout=10)
        for e in error:
            if e is not None:
                raise e
        return result


class SimScheduler:
    def __init__(self, seed=0, policy="random", faults=None, max_log=4000):
        self.rng = random.Random(seed)
        self.policy = policy
        f = faults or {}
        self.p_dup = float(f.get("dup", 0.0))
        self.p_evict = float(f.get("evict", 0.0))
        self.readonly = bool(f.get("ro", False))
        self.copy = bool(f.get("copy", False))
        self.p_conc = float(f.get("conc", 0.0))
        self.watch = tuple(f.get("watch", ()))
        self.phase = "compute"
        self.invocations = 0
        self.build_invocations = 0
        self.fired = {"dup": 0, "evict": 0, "recompute": 0, "ro_delivery": 0, "copy_delivery": 0,
                      "dup_mismatch": 0, "hazard_mutated_result": 0, "conc_pairs": 0, "conc_switches": 0}
        self.tasks_executed = 0
        self.max_ready = 0
        self.choice_points = 0
        self.label_collisions = 0
        self.log = []
        self.max_log = max_log
        self.graph_shapes = []
        self.order_digest = hashlib.sha1()

    # ------------------------------------------------------------ helpers
    def _deliver(self, v):
        if isinstance(v, np.ndarray):
            if self.copy:
                self.fired["copy_delivery"] += 1
                v = np.array(v, copy=True, order="C")
            if self.readonly:
                self.fired["ro_delivery"] += 1
                v = v.view()
                v.flags.writeable = False
        return v

    def _log(self, *ev):
        # rank suffixes of interchangeable twins are arbitrary: not logged
        ev = tuple(e.split("~")[0] if isinstance(e, str) else e for e in ev)
        self.order_digest.update(repr(ev).encode())
        if len(self.log) < self.max_log:
            self.log.append(ev)

    # --------------------------------------------------------------- call
    def __call__(self, dsk, keys, **kwargs):
        self.invocations += 1
        if self.phase == "build":
            self.build_invocations += 1
        from dask._task_spec import convert_legacy_graph

        graph = dsk.__dask_graph__() if hasattr(dsk, "__dask_graph__") else dsk
        g = convert_legacy_graph(dict(graph))
        want = _flatten_keys(keys, [])
        # cull to what is needed
        needed, stack = set(), list(want)
        while stack:
            k = stack.pop()
            if k in needed:
                continue
            needed.add(k)
            stack.extend(d for d in g[k].dependencies)
        g = {k: v for k, v in g.items() if k in needed}
        labels, ncoll = canonical_labels(g)
        self.label_collisions += ncoll
        index = {k: i for i, k in enumerate(g)}
        deps = {k: sorted(g[k].dependencies, key=lambda d: labels[d]) for k in g}
        dependents = {k: [] for k in g}
        for k, ds in deps.items():
            for d in ds:
                dependents[d].append(k)
        shape_sig = hashlib.sha1(repr(sorted(v.split("~")[0] for v in labels.values())).encode()).hexdigest()[:12]
        self.graph_shapes.append(shape_sig)
        self._log("graph", len(g), shape_sig)

        prio = None
        if self.policy in ("dask-order", "reverse-priority"):
            prio = canonical_order(g, labels, deps)
        maxidx = {}
        for k in g:
            if isinstance(k, tuple):
                for pos, x in enumerate(k[1:]):
                    if isinstance(x, int):
                        key = (_strip(k[0]), pos)
                        maxidx[key] = max(maxidx.get(key, 0), x)

        def is_boundary(k):
            if not isinstance(k, tuple):
                return False
            for pos, x in enumerate(k[1:]):
                if isinstance(x, int) and (x == 0 or x == maxidx.get((_strip(k[0]), pos), 0)) and maxidx.get((_strip(k[0]), pos), 0) > 0:
                    return True
            return False

        results, sums = {}, {}
        done = set()
        wantset = set(want)
        made_ready_at = {}
        clock = [0]
        evictions_left = max(1, int(0.15 * len(g))) if self.p_evict > 0 else 0
        step_cap = 60 * len(g) + 100
        steps = 0

        def sort_key(k):
            return labels[k]

        def needed_now():
            """nodes without a result that an unfinished output (transitively) needs"""
            need, stack = set(), [w for w in want if w not in results]
            while stack:
                x = stack.pop()
                if x in need:
                    continue
                need.add(x)
                stack.extend(d for d in deps[x] if d not in results)
            return need

        need = needed_now()

        def runnable():
            return {k for k in need if all(d in results for d in deps[k])}

        def finished(x):
            """x has a result now: the ready set loses x and gains the needed dependents it completes"""
            need.discard(x)
            ready_set.discard(x)
            for c in dependents[x]:
                if c in need and all(d in results for d in deps[c]):
                    ready_set.add(c)

        # the ready set is kept incrementally (it used to be recomputed from `need` at every step, which made big
        # graphs quadratic); it is rebuilt only when an eviction changes `need`
        ready_set = runnable()
        while not wantset.issubset(results.keys()):
            steps += 1
            if steps > step_cap:
                raise RuntimeError("SimScheduler: step cap exceeded (harness bug)")
            ready = sorted(ready_set, key=sort_key)
            if not ready:
                raise RuntimeError("SimScheduler: no runnable needed task (harness bug)")
            for k in ready:
                made_ready_at.setdefault(k, clock[0])
            self.max_ready = max(self.max_ready, len(ready))
            if len(ready) > 1:
                self.choice_points += 1
            # ---- policy
            if self.policy == "random":
                k = ready[self.rng.randrange(len(ready))]
            elif self.policy == "fifo":
                k = min(ready, key=lambda x: (made_ready_at[x], sort_key(x)))
            elif self.policy == "lifo":
                k = max(ready, key=lambda x: (made_ready_at[x], sort_key(x)))
            elif self.policy == "dask-order":
                k = min(ready, key=lambda x: (prio[x], sort_key(x)))
            elif self.policy == "reverse-priority":
                k = max(ready, key=lambda x: (prio[x], sort_key(x)))
            elif self.policy == "boundary-last":
                inner = [x for x in ready if not is_boundary(x)]
                pool = inner or ready
                k = pool[self.rng.randrange(len(pool))]
            else:
                raise ValueError(self.policy)
            clock[0] += 1
            recompute = k in done
            if recompute:
                self.fired["recompute"] += 1
            node = g[k]
            args = {d: self._deliver(results[d]) for d in deps[k]}
            partner = None
            # (at most MAX_CONC_PAIRS interleaved pairs per compute: a pair costs two thread hand-overs per source
            # line, and a 5000-task graph gains nothing from its 2000th pair; the cap is a count, so it replays)
            if (self.p_conc > 0 and len(ready) > 1 and self.fired["conc_pairs"] < MAX_CONC_PAIRS
                    and self.rng.random() < self.p_conc):
                others = [x for x in ready if x != k]
                partner = others[self.rng.randrange(len(others))]
            if partner is not None:
                # F7: k and partner run as two concurrent tasks, interleaved line by line
                pargs = {d: self._deliver(results[d]) for d in deps[partner]}
                il = Interleaver(self.rng, self.watch)
                r, rp = il.run([lambda: node(args), lambda: g[partner](pargs)])
                self.fired["conc_pairs"] += 1
                self.fired["conc_switches"] += il.switches
                self.tasks_executed += 2
                self._log("run-pair", labels[k], labels[partner], il.switches)
                results[partner] = rp
                finished(partner)
                cs = _checksum(rp)
                if cs is not None:
                    sums[partner] = cs
                done.add(partner)
            else:
                r = node(args)
                self.tasks_executed += 1
                self._log("run", labels[k], "again" if recompute else "")
            # ---- F1 duplicate execution
            if self.p_dup > 0 and self.rng.random() < self.p_dup:
                self.fired["dup"] += 1
                args2 = {d: self._deliver(results[d]) for d in deps[k]}
                r2 = node(args2)
                self.tasks_executed += 1
                if not _same(r, r2):
                    self.fired["dup_mismatch"] += 1
                    self._log("dup-mismatch", labels[k])
                r = r2
                self._log("dup", labels[k])
            results[k] = r
            finished(k)
            cs = _checksum(r)
            if cs is not None:
                if k in sums and recompute and sums[k] != cs:
                    self._log("recompute-differs", labels[k])
                    self.fired["dup_mismatch"] += 1
                sums[k] = cs
            done.add(k)
            # ---- hazard probe + release of results nobody needs any more
            for d in list(deps[k]) + (list(deps[partner]) if partner is not None else []):
                if d in results and d not in wantset and all(c in done and c not in need for c in dependents[d]):
                    cs = _checksum(results[d])
                    if cs is not None and sums.get(d) not in (None, cs):
                        self.fired["hazard_mutated_result"] += 1
                        self._log("hazard", labels[d])
                    del results[d]
            # ---- F2 evict a stored result that still has pending consumers
            if evictions_left > 0 and self.rng.random() < self.p_evict:
                cands = sorted([d for d in results if d not in wantset and any(c in need for c in dependents[d])],
                               key=sort_key)
                if cands:
                    victim = cands[self.rng.randrange(len(cands))]
                    cs = _checksum(results[victim])
                    if cs is not None and sums.get(victim) not in (None, cs):
                        self.fired["hazard_mutated_result"] += 1
                        self._log("hazard", labels[victim])
                    del results[victim]
                    evictions_left -= 1
                    self.fired["evict"] += 1
                    self._log("evict", labels[victim])
                    need = needed_now()
                    ready_set = runnable()
        # final hazard probe on everything still stored
        for d, v in results.items():
            cs = _checksum(v)
            if cs is not None and sums.get(d) not in (None, cs):
                self.fired["hazard_mutated_result"] += 1
                self._log("hazard", labels[d])
        return _repack(keys, results)

    def digest(self):
        return self.order_digest.hexdigest()[:16]


class DeterministicUUID:
    """Seam for the one source of randomness in graph construction: dask falls
    back to ``uuid.uuid4()`` for tokens of objects it cannot hash (closures,
    e.g. xgcm's mapped_func).  Different tokens mean different key strings,
    different string hashes, and thereby different set iteration orders inside
    dask's optimiser - the graph *structure* then varies from run to run.
    While a case runs, uuid4 is a PRNG seeded from the case, so keys and graph
    structure are a pure function of (case spec, code, PYTHONHASHSEED)."""

    def __init__(self, seed):
        self.rng = random.Random(seed)
        self.calls = 0

    def _uuid4(self):
        import uuid

        self.calls += 1
        return uuid.UUID(int=self.rng.getrandbits(128), version=4)

    def __enter__(self):
        import uuid

        self._orig = uuid.uuid4
        uuid.uuid4 = self._uuid4
        return self

    def __exit__(self, *exc):
        import uuid

        uuid.uuid4 = self._orig
        return False


class BuildMonitor:
    """Counts computations triggered while a lazy result is being *built*:
    the configured scheduler callable plus the entry points that could be
    reached with an explicit ``scheduler=`` argument."""

    def __init__(self):
        self.count = 0
        self.where = []
        self._named = []

    def __enter__(self):
        import dask
        import dask.local
        import dask.threaded

        self._cfg = dask.config.set(scheduler=self._sched)
        self._cfg.__enter__()
        self._patched = []
        for mod, name in ((dask.local, "get_sync"), (dask.threaded, "get")):
            orig = getattr(mod, name)

            def wrapper(*a, __orig=orig, __name=name, **k):
                self.count += 1
                self.where.append(__name)
                return __orig(*a, **k)

            setattr(mod, name, wrapper)
            self._patched.append((mod, name, orig))
            # dask.base.named_schedulers holds references taken at import time
            # ("sync", "threads", ...): computations requested with an explicit
            # scheduler="threads" go through that table
            import dask.base

            for key, fn in list(dask.base.named_schedulers.items()):
                if fn is orig:
                    dask.base.named_schedulers[key] = wrapper
                    self._named.append((key, orig))
        return self

    def _sched(self, dsk, keys, **kw):
        import traceback

        import dask.local

        self.count += 1
        fr = [f"{f.filename.split('/')[-1]}:{f.lineno}" for f in traceback.extract_stack() if "/xgcm/" in f.filename]
        self.where.append("config-scheduler@" + (fr[-1] if fr else "?"))
        orig = [o for (m, n, o) in self._patched if n == "get_sync"][0]
        return orig(dsk, keys, **kw)

    def __exit__(self, *exc):
        for mod, name, orig in self._patched:
            setattr(mod, name, orig)
        import dask.base

        for key, orig in self._named:
            dask.base.named_schedulers[key] = orig
        self._cfg.__exit__(*exc)
        return False
