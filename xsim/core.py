"""Shared simulator core: seed derivation, digests, replay files, ddmin,
known findings, evidence.

Rules kept here (DESIGN.md section 3):
* one integer (VERIF_SEED) decides everything; every run/stream seed is a hash
  of a path of names, so a run does not depend on how many draws other runs
  made, on the number of workers or on which worker executes it;
* logging never draws from a PRNG and never reads a clock;
* replay files hold explicit case specs (JSON), not "seed + generator".
"""

import fnmatch
import hashlib
import json
import os
import random
import sys
import time

VERIF_DIR = os.path.dirname(os.path.dirname(os.path.abspath(__file__)))
# (the two overrides exist for the mutant self-test, which must not touch the
# evidence of the real tree)
REPLAY_DIR = os.environ.get("XSIM_REPLAY_DIR") or os.path.join(VERIF_DIR, "replays")
EVIDENCE_DIR = os.environ.get("XSIM_EVIDENCE_DIR") or os.path.join(VERIF_DIR, "evidence")
KNOWN_FILE = os.environ.get("XSIM_KNOWN_FILE") or os.path.join(VERIF_DIR, "known_findings.json")

EXIT_OK, EXIT_VIOLATION, EXIT_HARNESS = 0, 1, 2


# ----------------------------------------------------------------- seeds
def derive(*parts):
    """Deterministic 64-bit integer from a path of names."""
    h = hashlib.sha256("/".join(str(p) for p in parts).encode()).digest()
    return int.from_bytes(h[:8], "big")


def stream(*parts):
    """Independent PRNG stream named by a path."""
    return random.Random(derive(*parts))


def master_seed():
    try:
        return int(os.environ.get("VERIF_SEED", "0"))
    except ValueError:
        return derive("nonint", os.environ.get("VERIF_SEED"))


# --------------------------------------------------------------- digests
def canon(obj):
    """Canonical JSON text (sorted keys, no whitespace)."""
    return json.dumps(obj, sort_keys=True, separators=(",", ":"), default=_default)


def _default(o):
    import numpy as np

    if isinstance(o, (np.integer,)):
        return int(o)
    if isinstance(o, (np.floating,)):
        return float(o)
    if isinstance(o, np.bool_):
        return bool(o)
    if isinstance(o, np.ndarray):
        return o.tolist()
    if isinstance(o, (set, frozenset)):
        return sorted(o)
    if isinstance(o, tuple):
        return list(o)
    raise TypeError(f"not JSON-able: {type(o)}")


def digest(obj, n=16):
    return hashlib.sha1(canon(obj).encode()).hexdigest()[:n]


def array_digest(a):
    """Digest of an ndarray: dtype, shape and bytes (NaN payloads normalised)."""
    import numpy as np

    a = np.asarray(a)
    if a.dtype.kind == "f":
        a = np.where(np.isnan(a), np.nan, a)  # normalise NaN payload / sign
        a = a + 0.0  # -0.0 -> +0.0 (they compare equal; not a value change)
    b = np.ascontiguousarray(a)
    h = hashlib.sha1()
    h.update(str(b.dtype).encode())
    h.update(str(b.shape).encode())
    h.update(b.tobytes())
    return h.hexdigest()[:16]


# ------------------------------------------------------------ replay files
def write_replay(prop, fingerprint, spec, extra=None, directory=None):
    directory = directory or REPLAY_DIR
    os.makedirs(directory, exist_ok=True)
    body = {
        "property": prop,
        "fingerprint": fingerprint,
        "spec": spec,
    }
    if extra:
        body.update(extra)
    name = f"{prop}-{digest([fingerprint, spec], 12)}.json"
    path = os.path.join(directory, name)
    with open(path, "w") as f:
        # key order is preserved on purpose: the insertion order of the mappings in a
        # spec (boundary_width, link tables, ...) is an input the code under test can see
        json.dump(body, f, indent=1, default=_default)
        f.write("\n")
    return path


def read_replay(path):
    with open(path) as f:
        return json.load(f)


# ------------------------------------------------------------------ ddmin
def ddmin(items, test, budget):
    """Delta debugging: smallest sub-list of ``items`` for which ``test`` is
    still true.  ``budget`` is a one-element list holding the number of test
    executions left (shared between several minimisation passes)."""
    items = list(items)
    n = 2
    while len(items) >= 2 and budget[0] > 0:
        chunk = max(1, len(items) // n)
        subsets = [items[i : i + chunk] for i in range(0, len(items), chunk)]
        reduced = False
        for i in range(len(subsets)):
            if budget[0] <= 0:
                break
            complement = [x for j, s in enumerate(subsets) if j != i for x in s]
            budget[0] -= 1
            if complement and test(complement):
                items = complement
                n = max(n - 1, 2)
                reduced = True
                break
        if not reduced:
            if n >= len(items):
                break
            n = min(len(items), n * 2)
    return items


def greedy(spec, candidates, test, budget):
    """Greedy structural shrinking: ``candidates(spec)`` yields simpler specs;
    the first one for which ``test`` holds is adopted; repeat until none."""
    progress = True
    while progress and budget[0] > 0:
        progress = False
        for cand in candidates(spec):
            if budget[0] <= 0:
                break
            budget[0] -= 1
            try:
                ok = test(cand)
            except Exception:
                ok = False
            if ok:
                spec = cand
                progress = True
                break
    return spec


# --------------------------------------------------------- known findings
class Known:
    """known_findings.json: entries {property, fingerprint, status, what,
    commit?}.  Only ``status == "open"`` entries suppress a violation; the
    file is never written at run time."""

    def __init__(self, path=KNOWN_FILE):
        self.entries = []
        if os.path.exists(path):
            with open(path) as f:
                self.entries = json.load(f).get("findings", [])

    def match_open(self, prop, fingerprint):
        for e in self.entries:
            if e.get("status") != "open" or e.get("property") != prop:
                continue
            if fnmatch.fnmatchcase(fingerprint, e["fingerprint"]):
                return e
        return None


# ---------------------------------------------------------------- evidence
def write_evidence(prop, tier, seed, coverage, assumptions, wall_s, violations):
    os.makedirs(EVIDENCE_DIR, exist_ok=True)
    body = {
        "property_id": prop,
        "tier": tier,
        "seed": int(seed),
        "level": "exploration",
        "coverage": coverage,
        "assumptions": assumptions,
        "wall_s": round(float(wall_s), 2),
        "violations": int(violations),
    }
    path = os.path.join(EVIDENCE_DIR, f"{prop}.json")
    tmp = path + ".tmp"
    with open(tmp, "w") as f:
        json.dump(body, f, indent=1, sort_keys=True, default=_default)
        f.write("\n")
    os.replace(tmp, path)
    return path


class Clock:
    """Wall clock used ONLY for budgets and the evidence's wall_s, never for
    anything that influences a simulated execution."""

    def __init__(self):
        self.t0 = time.time()

    def elapsed(self):
        return time.time() - self.t0


def eprint(*a):
    print(*a, file=sys.stderr, flush=True)


def merge_stats(list_of_stats):
    """Sum integer counters, union lists of digests (reported as counts)."""
    out, sets = {}, {}
    for st in list_of_stats:
        for k, v in st.items():
            if isinstance(v, bool):
                out[k] = out.get(k, False) or v
            elif isinstance(v, (int, float)):
                out[k] = out.get(k, 0) + v
            elif isinstance(v, list):
                sets.setdefault(k, set()).update(v)
            elif isinstance(v, dict):
                d = out.setdefault(k, {})
                for kk, vv in v.items():
                    d[kk] = d.get(kk, 0) + vv
    for k, s in sets.items():
        out[k] = len(s)
    return out
