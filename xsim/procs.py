"""Worker subprocess pool.

Every batch is executed by fresh interpreters (``check.py worker ...``) that
print JSON lines on stdout.  No multiprocessing.Pool: a dead or hung worker is
detected here (exit status / wall clock), never waited for forever.
"""

import json
import os
import queue
import subprocess
import sys
import threading
import time

from .core import VERIF_DIR, eprint

PY = sys.executable
CHECK = os.path.join(VERIF_DIR, "check.py")
STUB = os.path.join(VERIF_DIR, "xsim", "numba_stub")


def worker_env(hashseed=0, with_stub=False, extra=None):
    env = dict(os.environ)
    env["PYTHONHASHSEED"] = str(hashseed)
    env["OMP_NUM_THREADS"] = "1"
    env["OPENBLAS_NUM_THREADS"] = "1"
    env["MKL_NUM_THREADS"] = "1"
    env["PYTHONDONTWRITEBYTECODE"] = "1"
    env["PYTHONWARNINGS"] = "ignore"
    pp = []
    if with_stub:
        pp.append(STUB)
    repo = os.environ.get("XSIM_REPO", "/repo")
    pp.append(repo)
    pp.append(VERIF_DIR)
    env["PYTHONPATH"] = os.pathsep.join(pp)
    env["XSIM_REPO"] = repo
    if extra:
        env.update({k: str(v) for k, v in extra.items()})
    return env


class Proc:
    def __init__(self, tag, argv, env):
        self.tag = tag
        self.p = subprocess.Popen(
            [PY, "-X", "faulthandler", CHECK] + argv,
            stdin=subprocess.PIPE,
            stdout=subprocess.PIPE,
            stderr=subprocess.PIPE,
            env=env,
            cwd=VERIF_DIR,
            text=True,
            bufsize=1,
        )
        self.err = []
        self._t_err = threading.Thread(target=self._drain_err, daemon=True)
        self._t_err.start()

    def _drain_err(self):
        for line in self.p.stderr:
            self.err.append(line)
            if len(self.err) > 400:
                del self.err[:200]

    def kill(self):
        try:
            self.p.kill()
        except Exception:
            pass


def run_shards(argv_for_shard, nshards, env_for_shard, on_msg, wall_limit):
    """Start ``nshards`` workers, feed every JSON line they print to
    ``on_msg(shard, msg)``.  Returns a list of problems (empty = all workers
    exited 0 after printing a ``done`` message)."""
    q = queue.Queue()
    procs = []
    for i in range(nshards):
        pr = Proc(i, argv_for_shard(i), env_for_shard(i))
        procs.append(pr)

        def reader(pr=pr, i=i):
            for line in pr.p.stdout:
                q.put((i, line))
            q.put((i, None))

        threading.Thread(target=reader, daemon=True).start()
        try:
            pr.p.stdin.close()
        except Exception:
            pass

    open_streams = nshards
    done = [False] * nshards
    t0 = time.time()
    problems = []
    while open_streams:
        left = wall_limit - (time.time() - t0)
        if left <= 0:
            problems.append(f"wall limit {wall_limit}s exceeded; killing workers")
            for pr in procs:
                pr.kill()
            break
        try:
            i, line = q.get(timeout=min(left, 5.0))
        except queue.Empty:
            continue
        if line is None:
            open_streams -= 1
            continue
        line = line.strip()
        if not line:
            continue
        try:
            msg = json.loads(line)
        except ValueError:
            problems.append(f"shard {i}: non-JSON output: {line[:200]}")
            continue
        if msg.get("k") == "done":
            done[i] = True
        on_msg(i, msg)
    for i, pr in enumerate(procs):
        try:
            rc = pr.p.wait(timeout=10)
        except subprocess.TimeoutExpired:
            pr.kill()
            rc = -9
        if rc != 0 or not done[i]:
            tail = "".join(pr.err[-30:])
            problems.append(f"shard {i}: exit={rc} done={done[i]} stderr tail:\n{tail}")
    return problems


class Server:
    """A long-lived worker that answers one JSON request per line (engine B)."""

    def __init__(self, tag, argv, env):
        self.tag = tag
        self.pr = Proc(tag, argv, env)

    def ask(self, obj, timeout=120):
        self.pr.p.stdin.write(json.dumps(obj) + "\n")
        self.pr.p.stdin.flush()
        return self.read(timeout)

    def send(self, obj):
        self.pr.p.stdin.write(json.dumps(obj) + "\n")
        self.pr.p.stdin.flush()

    def read(self, timeout=120):
        res = {}

        def rd():
            res["line"] = self.pr.p.stdout.readline()

        t = threading.Thread(target=rd, daemon=True)
        t.start()
        t.join(timeout)
        if t.is_alive() or not res.get("line"):
            tail = "".join(self.pr.err[-30:])
            raise RuntimeError(f"server {self.tag} gave no answer; stderr tail:\n{tail}")
        return json.loads(res["line"])

    def close(self):
        try:
            self.pr.p.stdin.close()
        except Exception:
            pass
        try:
            self.pr.p.wait(timeout=10)
        except Exception:
            self.pr.kill()


def run_one(argv, env, timeout):
    """Run one ``check.py`` sub-command to completion; returns (rc, stdout, stderr)."""
    try:
        cp = subprocess.run(
            [PY, "-X", "faulthandler", CHECK] + argv,
            env=env,
            cwd=VERIF_DIR,
            capture_output=True,
            text=True,
            timeout=timeout,
        )
        return cp.returncode, cp.stdout, cp.stderr
    except subprocess.TimeoutExpired as e:
        return -9, (e.stdout or ""), f"timeout after {timeout}s"
