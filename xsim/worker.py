"""Generic shard loop executed inside a worker subprocess."""

import json
import sys
import time
import traceback

from .core import derive


def emit(obj):
    # (no sort_keys: the insertion order of mappings inside a case spec is part of the case)
    sys.stdout.write(json.dumps(obj, default=_d) + "\n")
    sys.stdout.flush()


def _d(o):
    from .core import _default

    return _default(o)


def shard_loop(prop, args, engine):
    """``engine`` offers:
         run(i, seed_i, tier) -> record dict with keys
              d      digest of (spec, decisions, outcome)      [str]
              nt     non-trivial by the engine's rule          [bool]
              shape  distinctness key                          [str]
              viol   None or violation dict {fingerprint, spec, detail}
              sample optional written-out case
         stats() -> dict of counters (fault kinds fired etc.)
    """
    t0 = time.time()
    n = 0
    cut = False
    for i in range(args.shard, args.runs, args.nshards):
        if args.deadline and time.time() - t0 > args.deadline:
            cut = True
            break
        seed_i = derive(args.seed, prop, i)
        try:
            rec = engine.run(i, seed_i, args.tier)
        except Exception:
            emit(
                {
                    "k": "harness",
                    "i": i,
                    "seed_i": seed_i,
                    "tb": traceback.format_exc()[-3000:],
                }
            )
            n += 1
            continue
        n += 1
        msg = {"k": "run", "i": i, "d": rec["d"], "nt": int(bool(rec["nt"])), "s": rec["shape"]}
        emit(msg)
        if rec.get("viol"):
            v = dict(rec["viol"])
            v.update({"k": "viol", "i": i, "seed_i": seed_i})
            emit(v)
        if rec.get("sample") is not None:
            emit({"k": "sample", "i": i, "sample": rec["sample"]})
    if hasattr(engine, "finish"):
        # end-of-shard checks over the whole history of this worker process
        for v in engine.finish(args) or []:
            v = dict(v)
            v.update({"k": "viol", "i": args.runs + args.shard, "seed_i": 0})
            emit(v)
    emit({"k": "stats", "stats": engine.stats()})
    emit({"k": "done", "runs": n, "cut": cut})
