"""Pure-Python stand-in for the part of numba that xgcm.transform uses.

numba is not installed in this sandbox and cannot be fetched.  xgcm.transform
needs ``numba.guvectorize`` (plus the type objects used in its signatures) at
import time.  This package provides them so that the *kernel bodies* in
xgcm/transform.py run unmodified under CPython.

The stand-in owns one seam of the simulator (DESIGN.md S5): the output buffer
handed to a kernel is allocated here, like numba allocates it with
``np.empty``.  Its initial contents are decided by ``POISON`` (a callable
``(shape, dtype) -> ndarray``) so that the simulator can fill it with seeded
garbage; the default is NaN.  Inputs are handed to the kernel as read-only
views, so a kernel that writes into its inputs fails loudly.

Counters (``STATS``) let the simulator report how often a kernel ran and how
many output elements were poisoned.
"""

import re

import numpy as np

__version__ = "0.0-xsim-standin"

STATS = {"kernel_calls": 0, "columns": 0, "poisoned_elements": 0}


def _nan_poison(shape, dtype):
    out = np.empty(shape, dtype=dtype)
    out.fill(np.nan)
    return out


POISON = _nan_poison


class _Type:
    def __init__(self, name, dtype):
        self.name = name
        self.dtype = np.dtype(dtype)

    def __getitem__(self, item):
        return self

    def __repr__(self):
        return f"<numba-standin type {self.name}>"


boolean = _Type("boolean", np.bool_)
float32 = _Type("float32", np.float32)
float64 = _Type("float64", np.float64)
int32 = _Type("int32", np.int32)
int64 = _Type("int64", np.int64)


def _parse(signature):
    lhs, rhs = signature.replace(" ", "").split("->")
    pat = re.compile(r"\(([^()]*)\)")
    ins = [tuple(d for d in m.split(",") if d) for m in pat.findall(lhs)]
    outs = [tuple(d for d in m.split(",") if d) for m in pat.findall(rhs)]
    return ins, outs


def guvectorize(ftylist, signature, **_ignored):
    in_core, out_core = _parse(signature)
    if len(out_core) != 1:
        raise NotImplementedError("stand-in supports exactly one output")
    out_core = out_core[0]

    def decorator(kernel):
        def wrapper(*args):
            if len(args) != len(in_core):
                raise TypeError(
                    f"{kernel.__name__}: expected {len(in_core)} inputs, got {len(args)}"
                )
            arrs = [np.asarray(a) for a in args]
            # choose the loop dtype like numba's signature matching would:
            # float32 only if every floating input is float32
            fl = [a.dtype for a in arrs if a.dtype.kind == "f"]
            ftype = (
                np.dtype(np.float32)
                if fl and all(d == np.float32 for d in fl)
                else np.dtype(np.float64)
            )
            conv = []
            for a in arrs:
                if a.dtype.kind in "fiu":
                    a = a.astype(ftype, copy=False)
                conv.append(a)
            # split loop / core dims and collect core sizes
            sizes = {}
            loop_shapes = []
            for a, core in zip(conv, in_core):
                k = len(core)
                if a.ndim < k:
                    raise ValueError(
                        f"{kernel.__name__}: input has too few dimensions for core {core}"
                    )
                cshape = a.shape[a.ndim - k :] if k else ()
                for name, n in zip(core, cshape):
                    if sizes.setdefault(name, n) != n:
                        raise ValueError(
                            f"{kernel.__name__}: core dimension {name!r} mismatch "
                            f"({sizes[name]} vs {n})"
                        )
                loop_shapes.append(a.shape[: a.ndim - k])
            loop = np.broadcast_shapes(*loop_shapes)
            out_shape = tuple(loop) + tuple(sizes[d] for d in out_core)
            out = POISON(out_shape, ftype)
            STATS["poisoned_elements"] += int(out.size)
            bviews = []
            for a, core in zip(conv, in_core):
                k = len(core)
                cshape = a.shape[a.ndim - k :] if k else ()
                b = np.broadcast_to(a, tuple(loop) + tuple(cshape))
                bviews.append(b)
            STATS["kernel_calls"] += 1
            for idx in np.ndindex(*loop):
                call = []
                for b, core in zip(bviews, in_core):
                    v = b[idx]
                    if len(core) == 0:
                        v = v[()]  # numba hands scalars by value
                    else:
                        v = v.view()
                        v.flags.writeable = False
                    call.append(v)
                call.append(out[idx])
                kernel(*call)
                STATS["columns"] += 1
            return out

        wrapper.__name__ = kernel.__name__
        wrapper.__doc__ = kernel.__doc__
        wrapper.__wrapped__ = kernel
        wrapper.py_func = kernel
        return wrapper

    return decorator


def _passthrough(*a, **k):
    if len(a) == 1 and callable(a[0]) and not k:
        return a[0]

    def deco(f):
        return f

    return deco


jit = njit = vectorize = _passthrough
