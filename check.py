#!/venv/bin/python
"""Entry point of the xgcm deterministic-simulation checks.

  check.py <Cxx> [--tier quick|thorough]      run one property's check
  check.py replay <file>                      replay a violation file
  check.py selftest determinism [--props ..]  digest self-test
  check.py worker ...                         (internal) worker subprocess

Exit codes: 0 = property held on everything explored; 1 = violation(s), each
printed as ``VIOLATION property=<id> replay=<path>``; 2 = harness error.
"""

import argparse
import importlib
import json
import os
import sys

HERE = os.path.dirname(os.path.abspath(__file__))
sys.path.insert(0, HERE)

from xsim import core, procs  # noqa: E402

# property -> configuration of its check
CONF = {
    "C16": dict(module="xsim.eng_c16", stub=False, kind="shards", vary_hashseed=True,
                runs={"quick": 4000, "thorough": 100000},
                wall={"quick": 150, "thorough": 2400}),
    "C18": dict(module="xsim.eng_c18", stub=True, kind="shards", vary_hashseed=True,
                runs={"quick": 6000, "thorough": 150000},
                wall={"quick": 260, "thorough": 1800}),
    # engine A: the optimised dask graph depends on the string-hash seed, so shard i runs under PYTHONHASHSEED=i and
    # the determinism shadow re-executes part of one shard under that shard's own seed (other shard layout)
    "C06": dict(module="xsim.eng_c06", stub=False, kind="shards", shadow_hashseed=0, vary_hashseed=True,
                shadow_same_seed=True,
                runs={"quick": 3200, "thorough": 30000},
                wall={"quick": 240, "thorough": 2700}),
    "C07": dict(module="xsim.eng_c07", stub=True, kind="shards", shadow_hashseed=0, vary_hashseed=True,
                shadow_same_seed=True,
                runs={"quick": 16000, "thorough": 400000},
                wall={"quick": 150, "thorough": 1500}),
    "C08": dict(module="xsim.eng_c08", stub=True, kind="shards", shadow_hashseed=0, vary_hashseed=True,
                shadow_same_seed=True,
                runs={"quick": 16000, "thorough": 400000},
                wall={"quick": 150, "thorough": 1500}),
    "C12": dict(module="xsim.eng_c12", stub=False, kind="hash",
                runs={"quick": 400, "thorough": 3000},
                wall={"quick": 170, "thorough": 1800}),
}


def engine_module(prop):
    return importlib.import_module(CONF[prop]["module"])


# ------------------------------------------------------------------ worker
def cmd_worker(argv):
    ap = argparse.ArgumentParser()
    ap.add_argument("prop")
    ap.add_argument("--tier", default="quick")
    ap.add_argument("--seed", type=int, default=0)
    ap.add_argument("--shard", type=int, default=0)
    ap.add_argument("--nshards", type=int, default=1)
    ap.add_argument("--runs", type=int, default=10)
    ap.add_argument("--deadline", type=float, default=0)
    ap.add_argument("--serve", action="store_true")
    args = ap.parse_args(argv)
    import faulthandler

    faulthandler.enable()
    if args.deadline:
        faulthandler.dump_traceback_later(args.deadline + 120, exit=True)
    mod = engine_module(args.prop)
    if args.serve:
        return mod.serve(args)
    from xsim.worker import shard_loop

    eng = mod.Engine()
    shard_loop(args.prop, args, eng)
    return 0


def _replay_spec(mod, prop, spec):
    """One case, or a *history of cases executed in one interpreter* (a violation that needs state left behind by
    earlier cases of the same process):
      {"sequence": [spec, ..., spec]}   explicit cases, the violation is that of the last one;
      {"shard_prefix": {...}}           the cases a worker executed up to and including run `upto`, re-generated."""
    if isinstance(spec, dict) and "shard_prefix" in spec:
        c = spec["shard_prefix"]
        eng = mod.Engine()
        rec = None
        for i in range(c["shard"], c["upto"] + 1, c["nshards"]):
            try:
                rec = eng.run(i, core.derive(c["seed"], prop, i), c["tier"])
            except Exception:  # noqa
                rec = None
        return (rec or {}).get("viol")
    if isinstance(spec, dict) and "sequence" in spec:
        v = None
        for sp in spec["sequence"]:
            try:
                v = mod.replay(sp)
            except Exception:  # noqa
                v = None
        return v
    return mod.replay(spec)


def cmd_c18_cold(argv):
    """(internal) one cold-start execution for C18: request as JSON on stdin, result as JSON on stdout"""
    from xsim import eng_c18

    req = json.loads(sys.stdin.read())
    print(json.dumps(eng_c18.cold_child(req)))
    return 0


def cmd_worker_replay(argv):
    path = argv[0]
    body = core.read_replay(path)
    mod = engine_module(body["property"])
    v = _replay_spec(mod, body["property"], body["spec"])
    out = {"reproduced": bool(v) and v["fingerprint"] == body["fingerprint"],
           "fingerprint": v["fingerprint"] if v else None,
           "detail": v["detail"] if v else None}
    print(json.dumps(out))
    return 0


# ------------------------------------------------------------------ replay
def replay_file(path, quiet=False):
    """Replays in a fresh interpreter.  Returns (reproduced, fingerprint, detail)."""
    body = core.read_replay(path)
    prop = body["property"]
    if CONF[prop]["kind"] == "hash":
        mod = engine_module(prop)
        return mod.replay_parent(body, quiet=quiet)
    env = procs.worker_env(hashseed=body.get("hashseed", 0), with_stub=CONF[prop]["stub"])
    rc, out, err = procs.run_one(["worker-replay", path], env, timeout=600)
    if rc != 0:
        raise RuntimeError(f"replay worker failed rc={rc}\n{err[-3000:]}")
    res = json.loads(out.strip().splitlines()[-1])
    return res["reproduced"], res["fingerprint"], res["detail"]


def cmd_replay(argv):
    path = argv[0]
    body = core.read_replay(path)
    ok, fp, detail = replay_file(path)
    print(f"REPLAY property={body['property']} file={path}")
    print(f"  recorded fingerprint: {body['fingerprint']}")
    print(f"  replayed fingerprint: {fp}")
    print(f"  detail: {detail}")
    if ok:
        print(f"VIOLATION property={body['property']} replay={path}")
        return core.EXIT_VIOLATION
    print("  not reproduced on the current tree")
    return core.EXIT_OK


def history_replay(prop, mod, fp, v, seed, nshards, runs, tier):
    """A violation that does not reproduce on its own may depend on state that earlier cases left behind in the
    worker process (module-level caches in the code under test).  Re-execute, in a fresh interpreter, everything the
    worker executed up to that run; if the violation returns, reduce the history to an explicit, minimal sequence
    of cases (each candidate in a fresh interpreter) and write that as the replay file.
    Returns (path, note) or None."""
    shard = v["i"] % nshards
    meta = {"seed": seed, "run_index": v["i"], "seed_i": v["seed_i"], "detail": v.get("detail"),
            "needs_history": True, "hashseed": (shard if CONF[prop].get("vary_hashseed") else 0)}
    pspec = {"shard_prefix": {"seed": seed, "shard": shard, "nshards": nshards, "runs": runs, "tier": tier,
                              "upto": v["i"]}}
    ppath = core.write_replay(prop, fp, pspec, meta)
    ok, rfp, _ = replay_file(ppath, quiet=True)
    if not ok:
        return None
    note = (f"[does not reproduce on its own: needs the {len(range(shard, v['i'], nshards))} cases the same worker "
            f"process executed before it - state is kept between calls outside the objects they are given]")
    if not hasattr(mod, "make_case"):
        return ppath, note
    prefix = [mod.make_case(core.derive(seed, prop, i), tier) for i in range(shard, v["i"], nshards)]
    last = v["spec"]
    budget = [14]

    def test(pre):
        if budget[0] <= 0:
            return False
        budget[0] -= 1
        path = core.write_replay(prop, fp, {"sequence": list(pre) + [last]}, meta, directory=core.REPLAY_DIR + "/tmp")
        try:
            return replay_file(path, quiet=True)[0]
        except Exception:  # noqa
            return False
        finally:
            try:
                os.remove(path)
            except OSError:
                pass

    if not test(prefix):
        # the minimised case alone does not carry it: try the unminimised one as generated
        last = mod.make_case(core.derive(seed, prop, v["i"]), tier)
        if not test(prefix):
            return ppath, note
    # halve, then drop one at a time
    cur = list(prefix)
    changed = True
    while changed and budget[0] > 0 and len(cur) > 1:
        changed = False
        half = len(cur) // 2
        for cand in (cur[half:], cur[:half]):
            if test(cand):
                cur, changed = cand, True
                break
    if len(cur) <= 4:
        for j in range(len(cur) - 1, -1, -1):
            cand = cur[:j] + cur[j + 1:]
            if cand and test(cand):
                cur = cand
    spath = core.write_replay(prop, fp, {"sequence": cur + [last]}, meta)
    ok, _, _ = replay_file(spath, quiet=True)
    if not ok:
        return ppath, note
    note = (f"[does not reproduce on its own: needs {len(cur)} earlier case(s) in the same process (reduced from "
            f"{len(prefix)}); the replay file holds the sequence - state is kept between calls outside the objects "
            f"they are given]")
    return spath, note


# ------------------------------------------------------------- shard check
def run_shard_check(prop, tier, seed, nshards=None, runs=None, wall=None,
                    write_evidence=True, quiet=False, shadow=True):
    conf = CONF[prop]
    nshards = nshards or int(os.environ.get("XSIM_WORKERS", str(max(2, min(16, os.cpu_count() or 16)))))
    runs = runs or int(os.environ.get("XSIM_RUNS", conf["runs"][tier]))
    wall = wall or conf["wall"][tier]
    clock = core.Clock()
    known = core.Known()
    mod = engine_module(prop)

    state = {"runs": {}, "viol": [], "samples": [], "stats": [], "harness": [],
             "cut": False, "shadow": {}}
    nshadow = min(48, runs)

    def on_msg(shard, msg):
        k = msg.get("k")
        tgt = state if shard < nshards else None
        if shard >= nshards:  # shadow worker (other hash seed, 1 shard)
            if k == "run":
                state["shadow"][msg["i"]] = msg["d"]
            elif k == "harness":
                state["harness"].append(msg)
            return
        if k == "run":
            tgt["runs"][msg["i"]] = (msg["d"], msg["nt"], msg["s"])
        elif k == "viol":
            tgt["viol"].append(msg)
        elif k == "sample":
            if len(tgt["samples"]) < 3:
                tgt["samples"].append(msg["sample"])
        elif k == "stats":
            tgt["stats"].append(msg["stats"])
        elif k == "harness":
            tgt["harness"].append(msg)
        elif k == "done":
            if msg.get("cut"):
                tgt["cut"] = True

    total = nshards + (1 if shadow else 0)

    def shard_hashseed(i):
        return i if conf.get("vary_hashseed") else 0

    SH = 5 % nshards  # the shard the determinism shadow repeats when it has to run under the same hash seed

    def argv_for(i):
        if i < nshards:
            return ["worker", prop, "--tier", tier, "--seed", str(seed), "--shard", str(i),
                    "--nshards", str(nshards), "--runs", str(runs), "--deadline", str(wall * 0.8)]
        if conf.get("shadow_same_seed"):
            # every other run of shard SH, in a process of its own, under that shard's hash seed
            return ["worker", prop, "--tier", tier, "--seed", str(seed), "--shard", str(SH),
                    "--nshards", str(2 * nshards), "--runs", str(min(runs, 2 * nshards * nshadow)),
                    "--deadline", str(wall * 0.8)]
        return ["worker", prop, "--tier", tier, "--seed", str(seed), "--shard", "0",
                "--nshards", "1", "--runs", str(nshadow), "--deadline", str(wall * 0.8)]

    def env_for(i):
        # shadow worker: other shard layout; other hash seed too where the engine's
        # executions do not depend on it (dask graph construction does)
        # engines whose executions do not depend on the string-hash seed (history machines) run shard i under
        # PYTHONHASHSEED=i: free diversity, and a history that only misbehaves under some seeds is reachable; the
        # replay file records the seed
        if i < nshards:
            return procs.worker_env(hashseed=shard_hashseed(i), with_stub=conf["stub"])
        if conf.get("shadow_same_seed"):
            return procs.worker_env(hashseed=shard_hashseed(SH), with_stub=conf["stub"])
        return procs.worker_env(hashseed=conf.get("shadow_hashseed", 101 if conf.get("vary_hashseed") else 1),
                                with_stub=conf["stub"])

    problems = procs.run_shards(argv_for, total, env_for, on_msg, wall_limit=wall * 0.8 + 150)

    # ---- determinism shadow comparison
    ndet = 0
    for i, d in state["shadow"].items():
        if i in state["runs"]:
            ndet += 1
            if state["runs"][i][0] != d:
                problems.append(
                    f"determinism self-check failed: run {i} digest {state['runs'][i][0]} "
                    f"({nshards} shards) != {d} (shadow worker: other shard layout, "
                    f"{'same' if conf.get('shadow_same_seed') else 'other'} hash seed)")
    for hmsg in state["harness"]:
        problems.append(f"harness exception in run {hmsg.get('i')}: {hmsg.get('tb')}")

    # ---- violations
    reported, known_hits = [], {}
    seen_fp = {}
    history_tried = []
    for v in sorted(state["viol"], key=lambda m: m["i"]):
        fp = v["fingerprint"]
        e = known.match_open(prop, fp)
        if e is not None:
            known_hits.setdefault(e["fingerprint"], [e, 0])[1] += 1
            continue
        seen_fp.setdefault(fp, []).append(v)
    for fp, vs in seen_fp.items():
        v = vs[0]
        path = core.write_replay(prop, fp, v["spec"],
                                 {"seed": seed, "run_index": v["i"], "seed_i": v["seed_i"],
                                  "hashseed": shard_hashseed(v["i"] % nshards),
                                  "detail": v.get("detail"), "occurrences_in_batch": len(vs),
                                  "minimisation_steps": v.get("min_steps"),
                                  "decisions": v.get("decisions")})
        try:
            ok, rfp, rdetail = replay_file(path, quiet=True)
        except Exception as ex:  # noqa
            problems.append(f"replay of {path} failed in harness: {ex}")
            continue
        if not ok:
            # not reproducible on its own in a fresh interpreter: does it need the cases this worker executed before?
            hist = None
            if v["i"] < runs and len(history_tried) < 3:
                history_tried.append(fp)
                try:
                    hist = history_replay(prop, mod, fp, v, seed, nshards, runs, tier)
                except Exception as ex:  # noqa
                    problems.append(f"history replay of {fp} failed in harness: {ex}")
            if hist:
                reported.append((fp, hist[0], (v.get("detail") or "") + " " + hist[1], len(vs)))
                continue
            problems.append(f"violation {fp} (run {v['i']}) did not reproduce on replay of {path} "
                            f"(replayed fingerprint {rfp})")
            continue
        reported.append((fp, path, v.get("detail"), len(vs)))

    # ---- evidence
    stats = mod.merge_stats(state["stats"])
    nt_shapes = {s for (d, nt, s) in state["runs"].values() if nt}
    cov = {
        "evaluations": len(state["runs"]),
        "distinct_nontrivial": len(nt_shapes),
        "rule": mod.RULE,
        "samples": state["samples"],
        "runs_planned": runs,
        "cut_by_wall_budget": state["cut"],
        "runs_per_hour": int(len(state["runs"]) / max(clock.elapsed(), 1e-6) * 3600),
        "simulated_time": "not applicable - xgcm reads no clock; progress is counted in simulator steps",
        "stats": stats,
        "determinism_shadow_runs_compared": ndet,
        "components": mod.COMPONENTS,
        "violations_by_fingerprint": {fp: n for fp, _, _, n in reported},
        "known_findings_hit": {fp: n for fp, (e, n) in known_hits.items()},
        "harness_problems": problems[:5],
        "workers": nshards,
        "worker_hash_seeds": sorted({shard_hashseed(i) for i in range(nshards)}),
    }
    if write_evidence:
        core.write_evidence(prop, tier, seed, cov, mod.ASSUMPTIONS, clock.elapsed(), len(reported))

    if not quiet:
        print(f"[{prop}] tier={tier} VERIF_SEED={seed} runs={len(state['runs'])}/{runs} "
              f"distinct_nontrivial={len(nt_shapes)} wall={clock.elapsed():.1f}s "
              f"shadow_compared={ndet}")
        for k, val in sorted(stats.items()):
            if isinstance(val, (int, float)):
                print(f"    {k} = {val}")
        for w in mod.warnings_from_stats(stats) if hasattr(mod, "warnings_from_stats") else []:
            print(f"    WARNING: {w}")
        for fp, (e, n) in known_hits.items():
            print(f"KNOWN-FINDING: property={prop} {e['what']} [fingerprint {fp}, {n} occurrence(s) in this batch]")
        for fp, path, detail, n in reported:
            print(f"VIOLATION property={prop} replay={path}")
            print(f"    fingerprint={fp} occurrences={n}")
            print(f"    {detail}")
        for p in problems:
            print(f"HARNESS-ERROR: {p}")
    rc = core.EXIT_OK
    if reported:
        rc = core.EXIT_VIOLATION
    if problems or len(state["runs"]) == 0:
        rc = core.EXIT_HARNESS if not reported else core.EXIT_VIOLATION
    return rc, state, problems, reported


def cmd_check(prop, argv):
    ap = argparse.ArgumentParser()
    ap.add_argument("--tier", default=os.environ.get("VERIF_TIER", "quick"))
    ap.add_argument("--runs", type=int, default=None)
    ap.add_argument("--workers", type=int, default=None)
    args = ap.parse_args(argv)
    if args.tier not in ("quick", "thorough"):
        args.tier = "quick"
    seed = core.master_seed()
    print(f"VERIF_SEED={seed}")
    if CONF[prop]["kind"] == "hash":
        mod = engine_module(prop)
        return mod.parent_main(args.tier, seed, args)
    rc, _, _, _ = run_shard_check(prop, args.tier, seed, nshards=args.workers, runs=args.runs)
    return rc


# --------------------------------------------------------------- selftest
def cmd_selftest(argv):
    ap = argparse.ArgumentParser()
    ap.add_argument("what", choices=["determinism", "mutants"])
    ap.add_argument("--only", default=None, help="mutants: comma-separated name prefixes")
    ap.add_argument("--dir", default=os.path.join(HERE, "mutants"))
    ap.add_argument("--budget-runs", type=int, default=0, help="mutants: runs per check (0 = quick default)")
    ap.add_argument("--props", default="C16,C18,C06,C07,C08")
    ap.add_argument("--seeds", type=int, default=8)
    ap.add_argument("--runs", type=int, default=96)
    args = ap.parse_args(argv)
    if args.what == "mutants":
        return selftest_mutants(args)
    bad = 0
    for prop in args.props.split(","):
        for s in range(args.seeds):
            logs = []
            # second layout: other shard count, and another hash seed where the engine's
            # executions do not depend on it (engine A: dask graph construction does)
            for (nsh, hs) in ((4, 0), (16, CONF[prop].get("shadow_hashseed", 1))):
                state = {"runs": {}}

                def on_msg(shard, msg, state=state):
                    if msg.get("k") == "run":
                        state["runs"][msg["i"]] = msg["d"]

                def argv_for(i, nsh=nsh):
                    return ["worker", prop, "--tier", "quick", "--seed", str(1000 + s), "--shard", str(i),
                            "--nshards", str(nsh), "--runs", str(args.runs)]

                def env_for(i, hs=hs):
                    return procs.worker_env(hashseed=hs, with_stub=CONF[prop]["stub"])

                problems = procs.run_shards(argv_for, nsh, env_for, on_msg, wall_limit=900)
                if problems:
                    print("HARNESS-ERROR:", problems[0][:500])
                    bad += 1
                logs.append(state["runs"])
            diff = [i for i in logs[0] if logs[0][i] != logs[1].get(i)]
            print(f"selftest determinism {prop} VERIF_SEED={1000 + s}: {len(logs[0])} runs, "
                  f"{len(diff)} digests differ between (4 workers, hashseed 0) and (16 workers, hashseed {CONF[prop].get('shadow_hashseed', 1)})")
            if diff or len(logs[0]) != len(logs[1]):
                bad += 1
                print("   first differing runs:", diff[:5])
    return core.EXIT_HARNESS if bad else core.EXIT_OK


def run_against_patch(patch, props, runs=0, tier="quick", keep_log=None):
    """Apply ``patch`` to a scratch worktree of /repo (outside /repo and /verif,
    removed afterwards), run the given checks against it (XSIM_REPO), return
    {prop: (exit code, [violation fingerprints])}."""
    import shutil
    import subprocess
    import tempfile

    tmp = tempfile.mkdtemp(prefix="xsim_mut_")
    wt = os.path.join(tmp, "repo")
    out = {}
    try:
        subprocess.check_call(["git", "-C", "/repo", "worktree", "add", "-q", "--detach", wt, "HEAD"])
        subprocess.check_call(["git", "-C", wt, "apply", "--whitespace=nowarn", os.path.abspath(patch)])
        env = dict(os.environ)
        env["XSIM_REPO"] = wt
        env["XSIM_EVIDENCE_DIR"] = os.path.join(tmp, "evidence")
        env["XSIM_REPLAY_DIR"] = os.path.join(tmp, "replays")
        if runs:
            env["XSIM_RUNS"] = str(runs)
        for prop in props:
            cp = subprocess.run([sys.executable, os.path.join(HERE, "check.py"), prop, "--tier", tier],
                                env=env, capture_output=True, text=True, cwd=HERE)
            fps = [l.split("fingerprint=")[1].split()[0] for l in cp.stdout.splitlines() if "fingerprint=" in l and "KNOWN" not in l]
            details = [l.strip() for l in cp.stdout.splitlines() if l.startswith("    ") and "fingerprint=" not in l and " = " not in l]
            out[prop] = (cp.returncode, fps, details[:3], cp.stdout[-1500:] if cp.returncode == 2 else "")
            if keep_log:
                with open(keep_log, "a") as f:
                    f.write(f"===== {patch} {prop} rc={cp.returncode}\n{cp.stdout[-6000:]}\n{cp.stderr[-2000:]}\n")
    finally:
        subprocess.call(["git", "-C", "/repo", "worktree", "remove", "--force", wt])
        shutil.rmtree(tmp, ignore_errors=True)
    return out


def selftest_mutants(args):
    import glob

    names = sorted(glob.glob(os.path.join(args.dir, "*.patch")))
    if args.only:
        pref = args.only.split(",")
        names = [n for n in names if any(os.path.basename(n).startswith(p) for p in pref)]
    missed = 0
    for patch in names:
        meta = open(patch[:-6] + ".meta").read().splitlines()
        prop = meta[0].split("=")[1].strip()
        res = run_against_patch(patch, [prop], runs=args.budget_runs)
        rc, fps, details, tail = res[prop]
        verdict = "CAUGHT" if rc == 1 and fps else ("HARNESS-ERROR" if rc == 2 else "MISSED")
        if verdict == "MISSED" and any(l.strip() == "expect=unobservable" for l in meta):
            verdict = "EQUIVALENT"  # the change cannot be observed through the public API
        if verdict not in ("CAUGHT", "EQUIVALENT"):
            missed += 1
        print(f"{verdict:8s} {os.path.basename(patch)[:-6]:45s} property={prop} rc={rc} fingerprints={fps[:3]}")
        if verdict == "HARNESS-ERROR":
            print(tail)
        sys.stdout.flush()
    print(f"mutants: {len(names)} run, {missed} not caught")
    return 0 if missed == 0 else 1


def cmd_setup(argv):
    """Nothing is built or installed; verify that the interpreter the checks
    use can import what they need (repo working tree + stand-in)."""
    code = ("import numpy, xarray, dask, dask.array, xgcm, xgcm.transform, numba; "
            "import os; assert os.path.abspath(xgcm.__file__).startswith(os.environ['XSIM_REPO']), xgcm.__file__; "
            "print('setup ok:', 'xgcm from', os.path.dirname(xgcm.__file__), '| numba', numba.__version__, "
            "'| dask', dask.__version__, '| xarray', xarray.__version__)")
    import subprocess
    env = procs.worker_env(hashseed=0, with_stub=True)
    cp = subprocess.run([procs.PY, "-c", code], env=env, capture_output=True, text=True)
    sys.stdout.write(cp.stdout)
    sys.stderr.write(cp.stderr[-2000:])
    os.makedirs(core.EVIDENCE_DIR, exist_ok=True)
    os.makedirs(core.REPLAY_DIR, exist_ok=True)
    return 0 if cp.returncode == 0 else 2


def main():
    if len(sys.argv) < 2:
        print(__doc__)
        return 2
    cmd, rest = sys.argv[1], sys.argv[2:]
    if cmd == "worker":
        return cmd_worker(rest)
    if cmd == "worker-replay":
        return cmd_worker_replay(rest)
    if cmd == "c18-cold":
        return cmd_c18_cold(rest)
    if cmd == "replay":
        return cmd_replay(rest)
    if cmd == "selftest":
        return cmd_selftest(rest)
    if cmd == "setup":
        return cmd_setup(rest)
    if cmd in CONF:
        return cmd_check(cmd, rest)
    print(f"unknown command {cmd!r}")
    return 2


if __name__ == "__main__":
    try:
        rc = main()
    except SystemExit:
        raise
    except BaseException:
        import traceback

        traceback.print_exc()
        print("HARNESS-ERROR: uncaught exception in check.py")
        rc = core.EXIT_HARNESS
    sys.exit(rc)
