#!/bin/bash
# usage: tools_sweep.sh "<props>" "<seeds>"   - quick tier on the current tree under several VERIF_SEEDs, evidence not touched
cd "$(dirname "$0")"
for s in $2; do for p in $1; do
  out=$(XSIM_EVIDENCE_DIR=/tmp/ev_sweep XSIM_REPLAY_DIR=/tmp/rp_sweep VERIF_SEED=$s timeout 1500 /venv/bin/python check.py $p --tier quick 2>&1); rc=$?
  echo "== $p seed=$s rc=$rc $(echo "$out" | grep -c '^VIOLATION') violations"
  echo "$out" | grep -A2 '^VIOLATION\|^HARNESS' | cut -c1-400
done; done
