#!/venv/bin/python
"""Regenerates MANIFEST.json from one table (keeps it valid and consistent)."""
import json, os, sys
HERE = os.path.dirname(os.path.abspath(__file__))
PY = "/venv/bin/python"

CLAIMED = {
 "C06": dict(engine="A-dasksim", ref="DESIGN.md section 4",
    technique="deterministic simulation: seeded dask task-graph scheduler with fault injection (duplicate execution, evict+recompute, read-only and copied chunk delivery, shared compute, chained operations, line-level interleaving of concurrent task pairs), differential against eager xgcm, workers under 16 different string-hash seeds (dask-only code iterates sets too); violations that need earlier cases of the same process are replayed as a minimal case sequence",
    text="Seeded exploration: for each generated (grid, operation, chunk layout) the lazy result is built under a monitor that forbids any computation and then computed under several simulated schedules (policy x fault set); every result must equal the in-memory result bit for bit and refusals are allowed only in the exempted inner/outer situation. Sampling, not exhaustive: a clean batch is evidence, not proof.",
    note="Trusted: dask graph construction/optimisation, the canonical-label scheme that makes schedules replayable, exact arithmetic of integer-valued float64 test data. Concurrency is simulated, never real: serial schedules with buffer-delivery faults, plus pairs of tasks interleaved at line granularity inside xgcm's source by a settrace baton (one seed = one interleaving). Values are compared up to 1e-10 relative (chunked reductions re-associate sums), everything else exactly."),
 "C07": dict(engine="A-dasksim+numba-standin", ref="DESIGN.md section 4 and 7 (C07)",
    technique="deterministic simulation: simulated dask schedules + poisoned kernel output buffers; per-column overlap-weight reference model as oracle, exact power-of-two scale equivariance of the data",
    text="Seeded exploration of the conservative transform via the kernel and via Grid.transform: chunking/schedule/allocator clauses are decided by simulation (eager vs lazy under simulated schedules, garbage-filled output buffers); per-column conservation, overlap weights, bin merging, sign and bin reversal are checked against an independent reference model on every simulated execution.",
    note="numba is absent: kernels run as CPython under a stand-in for numba.guvectorize (kernel bodies unmodified); compiled-code effects (fastmath, integer overflow) are out of reach. theta values are drawn from a small dyadic lattice so that exact ties with bin edges are frequent."),
 "C08": dict(engine="A-dasksim+numba-standin", ref="DESIGN.md section 4 and 7 (C08)",
    technique="deterministic simulation: simulated dask schedules + poisoned kernel output buffers; per-column piecewise-linear reference interpolant as oracle, exact power-of-two scale equivariance of the data",
    text="Seeded exploration of linear/log transforms via the kernel and via Grid.transform: column independence under every chunking/schedule/fault set is decided by simulation; values, masking, level order, direction handling and naming are checked against an independent segment-search interpolant on every simulated execution.",
    note="numba stand-in as for C07. Tolerance 1e-12 relative for values (np.interp vs the model), exact for NaN placement and names."),
 "C12": dict(engine="B-hashsim", ref="DESIGN.md section 5",
    technique="deterministic simulation over hash seeds: fresh interpreters per PYTHONHASHSEED (chosen to realise every ordering of the involved name sets) x permutations of the link-table insertion order (faces, per-face axis entries, keyword mappings); eager and lazy (dask synchronous scheduler) executions; all executions of a case must agree",
    text="Seeded exploration: every case is executed in K fresh interpreters whose string-hash seeds were selected so that together they realise all orderings of the 2- and 3-element name sets involved (and most 4-element ones), and under permuted insertion orders of the face-link table; outcome digests (values, dims, coords, accept/reject) must be identical across all of them.",
    note="Hash-seed control covers sets of str/tuple/frozenset-of-str, which is every set in xgcm; address-hashed objects (ASLR) are not controlled. Exception messages are excluded from the digest (they may legitimately print a set)."),
 "C16": dict(engine="C-history", ref="DESIGN.md section 6.1",
    technique="deterministic simulation: seeded registration histories with injected refusals, checked step by step against a sequential slot-registry reference model, plus regrouping equivalence and direct registration of the final registry; refusal faults also inside the constructor; workers under 16 different string-hash seeds",
    text="Seeded exploration of registration histories (constructor entries + up to 4/6 set_metrics calls over a pool of 20 attributable metric variables) with refusal faults; after every step all get_metric reads are checked against a sequential model, and the same flattened registration sequence is re-executed under other batchings and must read identically.",
    note="Reads are attributed through values (each pool variable is a constant prime field). A refused multi-variable call is modelled strictly as one-at-a-time registration (prefix registered, rest untouched)."),
 "C18": dict(engine="C-history", ref="DESIGN.md section 6.2",
    technique="deterministic simulation: seeded operation histories over shared argument objects with fault injection (ill-posed requests, raising user function, warnings escalated to exceptions, exception injected via sys.settrace at the k-th xgcm source line), in-memory and dask-backed (lazy) worlds, cold starts (the interrupted call re-executed as the first xgcm call of a fresh interpreter), workers under 16 different string-hash seeds; oracle = pristine world snapshot + fresh-run outcome",
    text="Seeded exploration of histories of 2-3 (thorough 2-5) public operations that share argument objects; after every step, returned or raised or interrupted at an arbitrary xgcm source line, a deep snapshot of every caller-owned object and of the Grid must equal the pristine snapshot, and the outcome must equal that of the same call issued first on fresh objects.",
    note="Snapshots cover observable state (values, dims, names, attrs, coords, mapping order and value identity, Grid axis settings and registry). transform runs under the numba stand-in. Concurrent callers are out of scope."),
}

NA = {
 "C01": "pure function of (array, grid layout, kwargs): no schedule, clock, fault or history can influence an in-memory diff/interp/min/max; nothing for a simulator to control (its dask path is explored under C06 against the eager result)",
 "C02": "pure function of constructor and call spellings; no nondeterminism or fault surface (the one history effect, the constructor writing into the caller's mapping, is covered by C18)",
 "C03": "pure function of (topology, data); the only order dependence (axis order in the per-face loop) is the subject of C12",
 "C04": "pure function of (topology, vector components); no schedule, fault or history in it",
 "C05": "pure function of (link table, widths, data); its only seed-dependent part (halo corner cells) is excluded by C05 itself and handled by C12",
 "C09": "pure function (cumsum/cumint on in-memory data); the lazy variants are part of C06's operation list",
 "C10": "pure function of (registry, array dims, axes); registry histories are C16, the seed-dependent choice among partitions is C12",
 "C11": "pure function of (signature, binding, options, data); dask/map_overlap options are exercised under C06 whose oracle is the eager result",
 "C13": "metamorphic relation between two pure calls (renamed axes/dims); nothing for a simulator to control",
 "C14": "pure decision tables over dataset attributes; the seed-dependent order of parsed axes is C12",
 "C15": "pure string-language property whose quantifier asks for exhaustive enumeration of a bounded language (model checking, not this family); seed dependence of equivalent() is C12",
 "C17": "pure predicate on the link table; the quantifier asks for exhaustive enumeration of all 625 tables and all 1-2 edit mutations (bounded model checking), which this study excludes from the family",
 "C19": "pure function of (grid dataset, input, keep_coords); no schedule, fault or history",
 "C20": "history-free: whether an ill-posed request raises is a pure function of the request (ill-posed requests are used as a fault kind inside C18's histories, but the refusal itself is not claimed)",
}

def build(active):
    checks = []
    for pid, c in CLAIMED.items():
        if pid not in active:
            continue
        checks.append({
            "property_id": pid,
            "quick_cmd": f"{PY} check.py {pid} --tier quick",
            "thorough_cmd": f"{PY} check.py {pid} --tier thorough",
            "evidence_file": f"/verif/evidence/{pid}.json",
            "replay_cmd_template": f"{PY} check.py replay {{path}}",
            "engine": c["engine"],
            "level_claimed": {"category": "exploration", "text": c["text"], "design_ref": c["ref"]},
            "level_note": c["note"],
            "technique": c["technique"],
        })
    na = [{"property_id": k, "reason": v} for k, v in NA.items()]
    for pid in CLAIMED:
        if pid not in active:
            na.append({"property_id": pid, "reason": "check under construction in this session (planned: claimed, see DESIGN.md section 0); not yet registered"})
    na.sort(key=lambda e: e["property_id"])
    return {
        "version": 1,
        "setup_cmd": f"{PY} check.py setup",
        "hooks": {
            "guard": "XGCM_VERIF",
            "enable": "no hooks were needed: every seam used (dask scheduler callable, PYTHONHASHSEED of fresh interpreters, public API histories, sys.settrace, numba stand-in on PYTHONPATH) exists without touching /repo; the guard name is reserved and unused",
            "baseline_off_cmd": "cd /repo && /venv/bin/python -m pytest -ra -q -p no:cacheprovider --timeout=900 --continue-on-collection-errors",
            "source_commits": [],
            "add_only": True,
        },
        "engines": [
            {"name": "A-dasksim", "path": "xsim/dasksim.py", "serves_properties": ["C06", "C07", "C08"],
             "kind_free_text": "own dask scheduler (dask.config scheduler=callable) with seeded policies and fault injection"},
            {"name": "B-hashsim", "path": "xsim/eng_c12.py", "serves_properties": ["C12"],
             "kind_free_text": "fresh interpreters per PYTHONHASHSEED + link-table permutations, differential digests"},
            {"name": "C-history", "path": "xsim/eng_c16.py, xsim/eng_c18.py", "serves_properties": ["C16", "C18"],
             "kind_free_text": "seeded history machines with refusal / exception faults and reference models"},
        ],
        "checks": checks,
        "not_applicable": na,
        "notes": "All checks: /venv/bin/python check.py <id> --tier quick|thorough; VERIF_SEED (default 0) decides every run; exit 0 held / 1 VIOLATION / 2 harness error. Genuine defects repaired by fix: commits in /repo are listed in known_findings.json (fixed entries suppress nothing).",
    }

if __name__ == "__main__":
    active = sys.argv[1].split(",") if len(sys.argv) > 1 else list(CLAIMED)
    m = build(active)
    json.dump(m, open(os.path.join(HERE, "MANIFEST.json"), "w"), indent=1)
    print("wrote MANIFEST.json with checks:", [c["property_id"] for c in m["checks"]])
